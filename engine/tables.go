package main

import (
	"go/constant"
	"sort"
	"fmt"
	"go/token"
	"go/types"
	"strings"

	"golang.org/x/tools/go/ssa"
)

// Dispatch-table obligations.  "//@ table[P] classObject.get = objectGet" states that the
// package initialiser stores function objectGet into field get of the struct that the
// global classObject points to.  The fact is read off the SSA of the init functions
// (straight-line stores into a fresh composite literal) and discharged syntactically;
// it justifies the trusted contracts of the dispatcher methods.

type TableFact struct {
	Global, Field, Func string
	Props               []string
	File                string
	Line                int
	Pkg                 string
}

// initTableSlot returns the name of the function stored in field `field` of the struct
// assigned to global `gname` by an init function, or a description of what was found.
func (E *Engine) initTableSlot(pkg, gname, field string) string {
	sp := E.L.SSA[pkg]
	if sp == nil {
		return "?package"
	}
	g := sp.Var(gname)
	if g == nil {
		return "?global"
	}
	var alloc ssa.Value
	nstores := 0
	for _, fn := range E.L.Funcs {
		if fn.Pkg != sp {
			continue
		}
		for _, b := range fn.Blocks {
			for _, in := range b.Instrs {
				if st, ok := in.(*ssa.Store); ok && st.Addr == g {
					nstores++
					alloc = st.Val
				}
			}
		}
	}
	if nstores != 1 || alloc == nil {
		return fmt.Sprintf("?%d stores to %s", nstores, gname)
	}
	a, ok := alloc.(*ssa.Alloc)
	if !ok {
		return "?not a composite literal"
	}
	st, ok := a.Type().(*types.Pointer).Elem().Underlying().(*types.Struct)
	if !ok {
		return "?not a struct"
	}
	idx := -1
	for i := 0; i < st.NumFields(); i++ {
		if st.Field(i).Name() == field {
			idx = i
		}
	}
	if idx < 0 {
		return "?no such field"
	}
	found := ""
	count := 0
	for _, r := range *a.Referrers() {
		fa, ok := r.(*ssa.FieldAddr)
		if !ok || fa.Field != idx {
			continue
		}
		for _, r2 := range *fa.Referrers() {
			if s, ok := r2.(*ssa.Store); ok && s.Addr == fa {
				count++
				v := s.Val
				if ct, ok := v.(*ssa.ChangeType); ok {
					v = ct.X
				}
				switch x := v.(type) {
				case *ssa.Function:
					found = x.Name()
				case *ssa.Const:
					if x.IsNil() {
						found = "nil"
					}
				default:
					found = "?" + v.String()
				}
			}
		}
	}
	if count == 0 {
		return "nil"
	}
	if count > 1 {
		return "?several stores"
	}
	return found
}

func (E *Engine) tableObligations(p string, enc *FnEnc) {
	for _, tf := range E.CS.Tables {
		if !hasProp(tf.Props, p) {
			continue
		}
		got := E.initTableSlot(tf.Pkg, tf.Global, tf.Field)
		cond := "false"
		if got == tf.Func {
			cond = "true"
		}
		text := fmt.Sprintf("%s.%s = %s", tf.Global, tf.Field, tf.Func)
		if cond == "false" {
			text += " -- but the initialiser stores " + got
		}
		o := &Obl{Name: fmt.Sprintf("%s#table[%s.%s]", tf.Pkg, tf.Global, tf.Field), Kind: "table", Func: "lemmas", Props: tf.Props,
			PC: "true", Cond: cond, NDecls: 0, Pos: fmt.Sprintf("%s:%d", strings.TrimPrefix(tf.File, repoDir+"/"), tf.Line), Text: text, enc: enc, Trivial: cond == "true"}
		enc.obls = append(enc.obls, o)
	}
}

// stableKey returns the heap key of a stable field declaration.
func (E *Engine) stableKeys() map[string]*StableField {
	if E.stable != nil {
		return E.stable
	}
	E.stable = map[string]*StableField{}
	for _, sf := range E.CS.StableFields {
		sp := E.L.SSA[sf.Pkg]
		if sp == nil {
			continue
		}
		if sf.TypePrefix != "" {
			for _, name := range sp.Pkg.Scope().Names() {
				tn, ok := sp.Pkg.Scope().Lookup(name).(*types.TypeName)
				if !ok || !strings.HasPrefix(name, sf.TypePrefix) {
					continue
				}
				st, ok := tn.Type().Underlying().(*types.Struct)
				if !ok {
					continue
				}
				for i := 0; i < st.NumFields(); i++ {
					E.stable[fieldKeyOf(tn.Type(), i)] = sf
				}
			}
			continue
		}
		tn, ok := sp.Pkg.Scope().Lookup(sf.Type).(*types.TypeName)
		if !ok {
			continue
		}
		st, ok := tn.Type().Underlying().(*types.Struct)
		if !ok {
			continue
		}
		for i := 0; i < st.NumFields(); i++ {
			if st.Field(i).Name() == sf.Field {
				E.stable[fieldKeyOf(tn.Type(), i)] = sf
			}
		}
	}
	return E.stable
}

// stableObligations: every store to a stable field is rooted at an allocation of the same
// function or happens in a listed writer.
func (E *Engine) stableObligations(p string, enc *FnEnc) {
	keysOf := map[*StableField]map[string]bool{}
	for key, sf := range E.stableKeys() {
		if keysOf[sf] == nil {
			keysOf[sf] = map[string]bool{}
		}
		keysOf[sf][key] = true
	}
	for _, sf := range E.CS.StableFields {
		if !hasProp(sf.Props, p) {
			continue
		}
		keys := keysOf[sf]
		var bad []string
		for _, fk := range E.L.sortedFuncKeys() {
			fn := E.L.Funcs[fk]
			allowed := false
			for _, w := range sf.Writers {
				if w == fk {
					allowed = true
				}
			}
			if allowed {
				continue
			}
			for _, b := range fn.Blocks {
				for _, in := range b.Instrs {
					st, ok := in.(*ssa.Store)
					if !ok {
						continue
					}
					w := map[string]bool{}
					addrKeys(st.Addr, w)
					hit := false
					for k := range w {
						if keys[k] {
							hit = true
						}
					}
					if !hit {
						continue
					}
					if _, fresh := addrRoot(st.Addr).(*ssa.Alloc); fresh {
						continue
					}
					pos := E.L.Prog.Fset.Position(st.Pos())
					exempt := false
					for _, f := range sf.Files {
						if strings.HasSuffix(pos.Filename, "/"+f) {
							exempt = true
						}
					}
					if exempt {
						continue
					}
					bad = append(bad, fmt.Sprintf("%s (%s:%d)", fk, strings.TrimPrefix(pos.Filename, repoDir+"/"), pos.Line))
				}
			}
		}
		what := sf.Type + "." + sf.Field
		if sf.TypePrefix != "" {
			what = fmt.Sprintf("%s* (%d fields)", sf.TypePrefix, len(keys))
		}
		cond := "true"
		text := fmt.Sprintf("%s: assigned only in freshly allocated objects (exempt writers: %s; exempt files: %s)", what, strings.Join(sf.Writers, ", "), strings.Join(sf.Files, ", "))
		if len(bad) > 0 {
			cond = "false"
			text += " -- but also stored by: " + strings.Join(bad, "; ")
		}
		enc.obls = append(enc.obls, &Obl{Name: fmt.Sprintf("%s#frame.stable[%s]", sf.Pkg, what), Kind: "frame.stable", Func: "lemmas",
			Props: sf.Props, PC: "true", Cond: cond, Pos: fmt.Sprintf("%s:%d", strings.TrimPrefix(sf.File, repoDir+"/"), sf.Line), Text: text, enc: enc, Trivial: cond == "true"})
	}
}

// ---------------------------------------------------------------------------
// Confinement of slices that belong to stable (immutable) structures.
//
// Fields of a stable type are never reassigned, but a slice stored in such a field also
// names a backing array.  The array stays unchanged if every use of a slice value loaded
// from such a field is a read: len/cap, range, indexing followed by loads, reslicing,
// being the source of copy/append, or being passed to a parameter that is itself only
// read (computed as a greatest fixed point over all functions).  Anything else – storing
// the slice somewhere, boxing it, returning it, passing it to unknown code, writing an
// element – is reported.
// ---------------------------------------------------------------------------

type roParam struct {
	fn  *ssa.Function
	idx int
}

func (E *Engine) readOnlySliceParams() map[roParam]bool {
	if E.roParams != nil {
		return E.roParams
	}
	ro := map[roParam]bool{}
	var fns []*ssa.Function
	for _, k := range E.L.sortedFuncKeys() {
		fn := E.L.Funcs[k]
		fns = append(fns, fn)
		for i, p := range fn.Params {
			if _, ok := p.Type().Underlying().(*types.Slice); ok {
				ro[roParam{fn, i}] = true
			}
		}
	}
	for changed := true; changed; {
		changed = false
		for _, fn := range fns {
			for i, p := range fn.Params {
				key := roParam{fn, i}
				if !ro[key] {
					continue
				}
				if why := E.sliceUseViolation(p, ro, map[ssa.Value]bool{}); why != "" {
					ro[key] = false
					changed = true
				}
			}
		}
	}
	E.roParams = ro
	return ro
}

// sliceUseViolation returns "" if every use of slice value v is a read, else a description.
func (E *Engine) sliceUseViolation(v ssa.Value, ro map[roParam]bool, seen map[ssa.Value]bool) string {
	if seen[v] {
		return ""
	}
	seen[v] = true
	refs := v.Referrers()
	if refs == nil {
		return ""
	}
	for _, r := range *refs {
		switch x := r.(type) {
		case *ssa.DebugRef, *ssa.Range:
		case *ssa.BinOp:
		case *ssa.Slice:
			if x.X == v {
				if w := E.sliceUseViolation(x, ro, seen); w != "" {
					return w
				}
			}
		case *ssa.Phi, *ssa.ChangeType, *ssa.Convert:
			if w := E.sliceUseViolation(x.(ssa.Value), ro, seen); w != "" {
				return w
			}
		case *ssa.IndexAddr:
			if x.X != v {
				continue
			}
			if w := addrOnlyRead(x, 0); w != "" {
				return w
			}
		case *ssa.Call:
			if w := E.sliceArgViolation(&x.Call, v, ro); w != "" {
				return w
			}
		case *ssa.Defer:
			if w := E.sliceArgViolation(&x.Call, v, ro); w != "" {
				return w
			}
		case *ssa.Go:
			return "passed to a goroutine"
		case *ssa.Store:
			if x.Val == v {
				// a local variable (possibly captured by a local closure): follow its loads
				if a, ok := x.Addr.(*ssa.Alloc); ok {
					if w := E.cellUseViolation(a, ro, seen); w != "" {
						return w
					}
					continue
				}
				return "stored into memory at " + E.L.Prog.Fset.Position(x.Pos()).String()
			}
		case *ssa.MakeInterface:
			return "boxed into an interface"
		case *ssa.MapUpdate:
			return "stored into a map"
		case *ssa.Return:
			return "returned to the caller at " + E.L.Prog.Fset.Position(x.Pos()).String()
		case *ssa.MakeClosure:
			return "captured by a closure"
		default:
			return fmt.Sprintf("used by %T", r)
		}
	}
	return ""
}

func addrOnlyRead(a ssa.Value, depth int) string {
	refs := a.Referrers()
	if refs == nil || depth > 4 {
		return "address escapes"
	}
	for _, r := range *refs {
		switch x := r.(type) {
		case *ssa.DebugRef:
		case *ssa.UnOp:
			if x.Op != token.MUL {
				return "address used by unary op"
			}
		case *ssa.FieldAddr:
			if w := addrOnlyRead(x, depth+1); w != "" {
				return w
			}
		case *ssa.Store:
			if x.Addr == a {
				return "element written"
			}
			return "element address stored"
		default:
			return fmt.Sprintf("element address used by %T", r)
		}
	}
	return ""
}

func (E *Engine) sliceArgViolation(c *ssa.CallCommon, v ssa.Value, ro map[roParam]bool) string {
	if b, ok := c.Value.(*ssa.Builtin); ok {
		switch b.Name() {
		case "len", "cap":
			return ""
		case "copy":
			if len(c.Args) == 2 && c.Args[1] == v && c.Args[0] != v {
				return ""
			}
			return "destination of copy"
		case "append":
			if len(c.Args) == 2 && c.Args[1] == v && c.Args[0] != v {
				return ""
			}
			return "first argument of append (may be written in place)"
		}
		return "passed to builtin " + b.Name()
	}
	callee := c.StaticCallee()
	if callee == nil {
		return "passed to a dynamic call"
	}
	if callee.Pkg == nil || E.L.SSA[callee.Pkg.Pkg.Name()] != callee.Pkg {
		if libReadsOnly(callee) || libNoCallback(callee) {
			return ""
		}
		return "passed to library function " + callee.String()
	}
	args := c.Args
	for i, a := range args {
		if a != v {
			continue
		}
		if i >= len(callee.Params) || !ro[roParam{callee, i}] {
			return "passed to " + funcKey(callee) + " which does not only read it"
		}
	}
	return ""
}

// confinementObligations: for each stabletypes declaration, slices loaded from fields of
// those types are only read (outside the exempt files).
func (E *Engine) confinementObligations(p string, enc *FnEnc) {
	ro := E.readOnlySliceParams()
	keysOf := map[*StableField]map[string]bool{}
	for key, sf := range E.stableKeys() {
		if keysOf[sf] == nil {
			keysOf[sf] = map[string]bool{}
		}
		keysOf[sf][key] = true
	}
	for _, sf := range E.CS.StableFields {
		if sf.TypePrefix == "" || !hasProp(sf.Props, p) {
			continue
		}
		keys := keysOf[sf]
		var bad []string
		count := 0
		for _, fk := range E.L.sortedFuncKeys() {
			fn := E.L.Funcs[fk]
			for _, b := range fn.Blocks {
				for _, in := range b.Instrs {
					ld, ok := in.(*ssa.UnOp)
					if !ok || ld.Op != token.MUL {
						continue
					}
					if _, isSlice := ld.Type().Underlying().(*types.Slice); !isSlice {
						continue
					}
					fa, ok := ld.X.(*ssa.FieldAddr)
					if !ok {
						continue
					}
					owner := fa.X.Type().Underlying().(*types.Pointer).Elem()
					if !keys[fieldKeyOf(owner, fa.Field)] {
						continue
					}
					pos := E.L.Prog.Fset.Position(ld.Pos())
					exempt := false
					for _, f := range sf.Files {
						if strings.HasSuffix(pos.Filename, "/"+f) {
							exempt = true
						}
					}
					if exempt {
						continue
					}
					count++
					if why := E.sliceUseViolation(ld, ro, map[ssa.Value]bool{}); why != "" {
						bad = append(bad, fmt.Sprintf("%s (%s:%d): %s", fk, strings.TrimPrefix(pos.Filename, repoDir+"/"), pos.Line, why))
					}
				}
			}
		}
		cond := "true"
		text := fmt.Sprintf("slices stored in %s* structures are only read (%d load sites checked)", sf.TypePrefix, count)
		if len(bad) > 0 {
			cond = "false"
			text += " -- violated: " + strings.Join(bad, "; ")
		}
		enc.obls = append(enc.obls, &Obl{Name: fmt.Sprintf("%s#frame.confined[%s* slices]", sf.Pkg, sf.TypePrefix), Kind: "frame.confined", Func: "lemmas",
			Props: sf.Props, PC: "true", Cond: cond, Pos: fmt.Sprintf("%s:%d", strings.TrimPrefix(sf.File, repoDir+"/"), sf.Line), Text: text, enc: enc, Trivial: cond == "true"})
	}
}

// cellUseViolation: the slice was stored into local variable cell; check every load of the
// cell, also inside closures that capture it.
func (E *Engine) cellUseViolation(cell ssa.Value, ro map[roParam]bool, seen map[ssa.Value]bool) string {
	if seen[cell] {
		return ""
	}
	seen[cell] = true
	refs := cell.Referrers()
	if refs == nil {
		return "variable escapes"
	}
	for _, r := range *refs {
		switch x := r.(type) {
		case *ssa.DebugRef, *ssa.Store:
		case *ssa.UnOp:
			if x.Op == token.MUL {
				if w := E.sliceUseViolation(x, ro, seen); w != "" {
					return w
				}
			}
		case *ssa.MakeClosure:
			fn := x.Fn.(*ssa.Function)
			for i, b := range x.Bindings {
				if b == cell && i < len(fn.FreeVars) {
					if w := E.cellUseViolation(fn.FreeVars[i], ro, seen); w != "" {
						return w
					}
				}
			}
		default:
			return fmt.Sprintf("variable used by %T", r)
		}
	}
	return ""
}

// rootGlobal follows an address or value back to the package-level variable it was
// derived from (through loads, field/element addresses, lookups), if any.
func rootGlobal(v ssa.Value, depth int) *ssa.Global {
	if depth > 8 {
		return nil
	}
	switch x := v.(type) {
	case *ssa.Global:
		return x
	case *ssa.FieldAddr:
		return rootGlobal(x.X, depth+1)
	case *ssa.IndexAddr:
		return rootGlobal(x.X, depth+1)
	case *ssa.UnOp:
		if x.Op == token.MUL {
			return rootGlobal(x.X, depth+1)
		}
	case *ssa.Lookup:
		return rootGlobal(x.X, depth+1)
	case *ssa.Index:
		return rootGlobal(x.X, depth+1)
	case *ssa.Field:
		return rootGlobal(x.X, depth+1)
	case *ssa.Slice:
		return rootGlobal(x.X, depth+1)
	}
	return nil
}

// globalsObligations: no function other than the package initialisers stores to a
// package-level variable of the package, or into memory reached through one (elements of
// package-level tables, fields of package-level structs, entries of package-level maps).
func (E *Engine) globalsObligations(p string, enc *FnEnc) {
	for _, gr := range E.CS.GlobalsRO {
		if !hasProp(gr.Props, p) {
			continue
		}
		sp := E.L.SSA[gr.Pkg]
		if sp == nil {
			continue
		}
		if gr.Kind == "native_closures" {
			E.nativeClosureObligation(gr, sp, enc)
			continue
		}
		except := map[string]bool{}
		for _, x := range gr.Except {
			except[x] = true
		}
		var bad []string
		nglob := 0
		for _, m := range sp.Members {
			if _, ok := m.(*ssa.Global); ok {
				nglob++
			}
		}
		for _, fk := range E.L.sortedFuncKeys() {
			fn := E.L.Funcs[fk]
			isInit := fn.Signature.Recv() == nil && fn.Parent() == nil && (fn.Name() == "init" || strings.HasPrefix(fn.Name(), "init#"))
			if isInit {
				continue
			}
			for _, b := range fn.Blocks {
				for _, in := range b.Instrs {
					var g *ssa.Global
					what := ""
					switch x := in.(type) {
					case *ssa.Store:
						g = rootGlobal(x.Addr, 0)
						what = "store"
					case *ssa.MapUpdate:
						g = rootGlobal(x.Map, 0)
						what = "map update"
					case *ssa.Call:
						if bi, ok := x.Call.Value.(*ssa.Builtin); ok && (bi.Name() == "delete" || bi.Name() == "copy") {
							g = rootGlobal(x.Call.Args[0], 0)
							what = bi.Name()
						}
					}
					if g == nil || g.Pkg != sp || except[g.Name()] {
						continue
					}
					pos := E.L.Prog.Fset.Position(in.Pos())
					bad = append(bad, fmt.Sprintf("%s: %s through %s (%s:%d)", fk, what, g.Name(), strings.TrimPrefix(pos.Filename, repoDir+"/"), pos.Line))
				}
			}
		}
		cond := "true"
		text := fmt.Sprintf("the %d package-level variables of package %s are written only by its initialisers (exceptions: %s)", nglob, gr.Pkg, strings.Join(gr.Except, ", "))
		if len(bad) > 0 {
			cond = "false"
			text += " -- violated: " + strings.Join(bad, "; ")
		}
		enc.obls = append(enc.obls, &Obl{Name: fmt.Sprintf("%s#frame.globals-readonly", gr.Pkg), Kind: "frame.globals", Func: "lemmas",
			Props: gr.Props, PC: "true", Cond: cond, Pos: fmt.Sprintf("%s:%d", strings.TrimPrefix(gr.File, repoDir+"/"), gr.Line), Text: text, enc: enc, Trivial: cond == "true"})
	}
}

// slotObligations: a slot contract is an inductive hypothesis about every function that a
// dynamic call through that field / interface method can reach.  It is closed here: every
// function stored into the field anywhere in the package (or, for an unexported interface
// method, the method of every type of the package implementing the interface) carries
// "implements <slot>", i.e. is itself proved against the slot's clauses.
func (E *Engine) slotObligations(p string, enc *FnEnc) {
	var keys []string
	for k := range E.CS.Slots {
		keys = append(keys, k)
	}
	sort.Strings(keys)
	for _, key := range keys {
		slot := E.CS.Slots[key]
		if !hasProp(slot.Props, p) {
			continue
		}
		parts := strings.Split(key, ".")
		sp := E.L.SSA[parts[0]]
		if sp == nil || len(parts) != 3 {
			continue
		}
		tn, _ := sp.Pkg.Scope().Lookup(parts[1]).(*types.TypeName)
		if tn == nil {
			cfail("slot %s: no such type", key)
		}
		var bad []string
		n := 0
		okFn := func(fn *ssa.Function) bool {
			fc := E.CS.Funcs[funcKey(fn)]
			return fc != nil && fc.Implements == key && !fc.Trusted
		}
		switch u := tn.Type().Underlying().(type) {
		case *types.Struct:
			idx := -1
			for i := 0; i < u.NumFields(); i++ {
				if u.Field(i).Name() == parts[2] {
					idx = i
				}
			}
			if idx < 0 {
				cfail("slot %s: no such field", key)
			}
			for _, fn := range E.L.Funcs {
				if fn.Pkg != sp {
					continue
				}
				for _, b := range fn.Blocks {
					for _, in := range b.Instrs {
						st, ok := in.(*ssa.Store)
						if !ok {
							continue
						}
						fa, ok := st.Addr.(*ssa.FieldAddr)
						if !ok || fa.Field != idx {
							continue
						}
						pt, ok := fa.X.Type().Underlying().(*types.Pointer)
						if !ok || !types.Identical(pt.Elem(), tn.Type()) {
							continue
						}
						n++
						v := st.Val
						if ct, ok := v.(*ssa.ChangeType); ok {
							v = ct.X
						}
						switch x := v.(type) {
						case *ssa.Function:
							if !okFn(x) {
								bad = append(bad, funcKey(x))
							}
						case *ssa.Const:
							// nil: calling it panics, nothing to prove
						default:
							bad = append(bad, fmt.Sprintf("%s in %s", v.String(), funcKey(fn)))
						}
					}
				}
			}
			// whole-struct stores copy the field from another struct of the same type: fine
		case *types.Interface:
			m, _, _ := types.LookupFieldOrMethod(tn.Type(), false, sp.Pkg, parts[2])
			if m == nil {
				cfail("slot %s: no such method", key)
			}
			if m.(*types.Func).Exported() {
				bad = append(bad, "method is exported: implementations outside the package are possible")
			}
			for _, name := range sp.Pkg.Scope().Names() {
				on, ok := sp.Pkg.Scope().Lookup(name).(*types.TypeName)
				if !ok || types.IsInterface(on.Type()) {
					continue
				}
				for _, T := range []types.Type{on.Type(), types.NewPointer(on.Type())} {
					if !types.Implements(T, u) {
						continue
					}
					sel := E.L.Prog.MethodSets.MethodSet(T).Lookup(sp.Pkg, parts[2])
					if sel == nil {
						continue
					}
					fn := E.L.Prog.MethodValue(sel)
					if fn == nil {
						continue
					}
					if fn.Synthetic != "" {
						continue // wrapper of a value-receiver method, counted at the value type
					}
					n++
					if !okFn(fn) {
						bad = append(bad, funcKey(fn))
					}
				}
			}
		}
		cond := "true"
		text := fmt.Sprintf("every function reachable through %s (%d found) is proved against the slot contract", key, n)
		if len(bad) > 0 || n == 0 {
			cond = "false"
			text += " -- not so: " + strings.Join(bad, ", ")
		}
		o := &Obl{Name: fmt.Sprintf("%s#slotimpl[%s.%s]", parts[0], parts[1], parts[2]), Kind: "slotimpl", Func: "lemmas", Props: slot.Props,
			PC: "true", Cond: cond, NDecls: 0, Pos: fmt.Sprintf("%s:%d", strings.TrimPrefix(slot.File, repoDir+"/"), slot.Line), Text: text, enc: enc, Trivial: cond == "true"}
		enc.obls = append(enc.obls, o)
	}
}

// initarg obligations: "//@ initarg[P] name = `text`" - the package variable is initialised
// by a call whose first argument is exactly this constant string (regular-expression and
// character-set tables whose content the contracts derive from the specification).  Read off
// the SSA of the package initialiser; the variable must have no other store.
type InitArg struct {
	Global, Text string
	Props        []string
	Pkg, File    string
	Line         int
}

func (E *Engine) initArgObligations(p string, enc *FnEnc) {
	for _, ia := range E.CS.InitArgs {
		if !hasProp(ia.Props, p) {
			continue
		}
		got, why := E.initArgOf(ia.Pkg, ia.Global)
		cond := "false"
		if why == "" && got == ia.Text {
			cond = "true"
		}
		text := fmt.Sprintf("%s is initialised from the constant %q", ia.Global, ia.Text)
		if cond == "false" {
			if why != "" {
				text += " -- but " + why
			} else {
				text += fmt.Sprintf(" -- but the initialiser passes %q", got)
			}
		}
		o := &Obl{Name: fmt.Sprintf("%s#initarg[%s]", ia.Pkg, ia.Global), Kind: "initarg", Func: "lemmas", Props: ia.Props,
			PC: "true", Cond: cond, NDecls: 0, Pos: fmt.Sprintf("%s:%d", strings.TrimPrefix(ia.File, repoDir+"/"), ia.Line), Text: text, enc: enc, Trivial: cond == "true"}
		enc.obls = append(enc.obls, o)
	}
}

func (E *Engine) initArgOf(pkg, gname string) (string, string) {
	sp := E.L.SSA[pkg]
	if sp == nil {
		return "", "no such package"
	}
	g := sp.Var(gname)
	if g == nil {
		// a package-level string constant: its value
		if k, ok := sp.Pkg.Scope().Lookup(gname).(*types.Const); ok && k.Val().Kind() == constant.String {
			return constant.StringVal(k.Val()), ""
		}
		return "", "no such variable"
	}
	var val ssa.Value
	n := 0
	for _, fn := range E.L.Funcs {
		if fn.Pkg != sp {
			continue
		}
		for _, b := range fn.Blocks {
			for _, in := range b.Instrs {
				if st, ok := in.(*ssa.Store); ok && st.Addr == g {
					n++
					val = st.Val
					if !(fn.Name() == "init" || strings.HasPrefix(fn.Name(), "init#")) {
						return "", "it is assigned outside the package initialiser (in " + fn.Name() + ")"
					}
				}
			}
		}
	}
	if n != 1 {
		return "", fmt.Sprintf("it has %d stores", n)
	}
	call, ok := val.(*ssa.Call)
	if !ok || len(call.Call.Args) == 0 {
		return "", "its initialiser is not a call"
	}
	c, ok := call.Call.Args[0].(*ssa.Const)
	if !ok || c.Value == nil || c.Value.Kind() != constant.String {
		return "", "the first argument of its initialiser is not a constant string"
	}
	return constant.StringVal(c.Value), ""
}

// reachesRuntime: can a value of this type hold (a path to) a runtime, an object or a
// language value?  Interfaces and function values are treated as if they could.
func reachesRuntime(t types.Type, seen map[types.Type]bool) bool {
	if seen[t] {
		return false
	}
	seen[t] = true
	if n, ok := t.(*types.Named); ok && n.Obj().Pkg() != nil && n.Obj().Pkg().Path() == "reflect" {
		return false // a Go value of the host: shared with the host by design, not interpreter state
	}
	if n, ok := t.(*types.Named); ok && n.Obj().Pkg() != nil && n.Obj().Pkg().Name() == "otto" {
		switch n.Obj().Name() {
		case "runtime", "object", "Otto", "Value", "Object", "FunctionCall", "scope", "stash", "cloner":
			return true
		}
	}
	switch u := t.Underlying().(type) {
	case *types.Pointer:
		return reachesRuntime(u.Elem(), seen)
	case *types.Slice:
		return reachesRuntime(u.Elem(), seen)
	case *types.Array:
		return reachesRuntime(u.Elem(), seen)
	case *types.Map:
		return reachesRuntime(u.Key(), seen) || reachesRuntime(u.Elem(), seen)
	case *types.Struct:
		for i := 0; i < u.NumFields(); i++ {
			if reachesRuntime(u.Field(i).Type(), seen) {
				return true
			}
		}
	case *types.Interface, *types.Signature, *types.Chan:
		return true
	}
	return false
}

// nativeClosureObligation: Copy() copies nativeFunctionObject.call (a Go function value) as
// it is, so a function literal of type func(FunctionCall) Value that captures a runtime, an
// object or a value would make the copy read or write the original's state.  Every such
// literal in the package captures nothing of that kind (functions listed under except= are
// documented exceptions).
func (E *Engine) nativeClosureObligation(gr *GlobalsReadonly, sp *ssa.Package, enc *FnEnc) {
	except := map[string]bool{}
	for _, x := range gr.Except {
		except[x] = true
	}
	isNative := func(sig *types.Signature) bool {
		if sig.Recv() == nil && sig.Params().Len() == 2 && sig.Results().Len() == 1 {
			// constructFunction: func(*object, []Value) Value
			if pp, ok := sig.Params().At(0).Type().(*types.Pointer); ok {
				if pn, ok := pp.Elem().(*types.Named); ok && pn.Obj().Name() == "object" && pn.Obj().Pkg() == sp.Pkg {
					if sl, ok := sig.Params().At(1).Type().(*types.Slice); ok {
						en, ok1 := sl.Elem().(*types.Named)
						rn, ok2 := sig.Results().At(0).Type().(*types.Named)
						return ok1 && ok2 && en.Obj().Name() == "Value" && rn.Obj().Name() == "Value"
					}
				}
			}
			return false
		}
		if sig.Recv() != nil || sig.Params().Len() != 1 || sig.Results().Len() != 1 {
			return false
		}
		pn, ok1 := sig.Params().At(0).Type().(*types.Named)
		rn, ok2 := sig.Results().At(0).Type().(*types.Named)
		return ok1 && ok2 && pn.Obj().Name() == "FunctionCall" && rn.Obj().Name() == "Value" && pn.Obj().Pkg() == sp.Pkg && rn.Obj().Pkg() == sp.Pkg
	}
	var bad []string
	n := 0
	for _, fk := range E.L.sortedFuncKeys() {
		fn := E.L.Funcs[fk]
		if fn.Pkg != sp {
			continue
		}
		for _, b := range fn.Blocks {
			for _, in := range b.Instrs {
				mc, ok := in.(*ssa.MakeClosure)
				if !ok {
					continue
				}
				cf := mc.Fn.(*ssa.Function)
				if !isNative(cf.Signature) {
					continue
				}
				n++
				if except[fn.Name()] || except[cf.Name()] {
					continue
				}
				for i, bv := range mc.Bindings {
					t := bv.Type()
					if pt, ok := t.(*types.Pointer); ok && i < len(cf.FreeVars) {
						// captured by reference: the cell's content type decides
						t = pt.Elem()
						_ = cf.FreeVars[i]
					}
					if reachesRuntime(t, map[types.Type]bool{}) {
						pos := E.L.Prog.Fset.Position(cf.Pos())
						bad = append(bad, fmt.Sprintf("%s captures %s (%s) (%s:%d)", cf.Name(), cf.FreeVars[i].Name(), bv.Type(), strings.TrimPrefix(pos.Filename, repoDir+"/"), pos.Line))
					}
				}
			}
		}
	}
	cond := "true"
	text := fmt.Sprintf("none of the %d function literals of type func(FunctionCall) Value or func(*object, []Value) Value in package %s captures a runtime, object or value (exceptions: %s)", n, gr.Pkg, strings.Join(gr.Except, ", "))
	if len(bad) > 0 {
		cond = "false"
		text += " -- violated: " + strings.Join(bad, "; ")
	}
	enc.obls = append(enc.obls, &Obl{Name: fmt.Sprintf("%s#frame.native-closures", gr.Pkg), Kind: "frame.globals", Func: "lemmas",
		Props: gr.Props, PC: "true", Cond: cond, Pos: fmt.Sprintf("%s:%d", strings.TrimPrefix(gr.File, repoDir+"/"), gr.Line), Text: text, enc: enc, Trivial: cond == "true"})
}
