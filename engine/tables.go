package main

import (
	"fmt"
	"go/types"
	"strings"

	"golang.org/x/tools/go/ssa"
)

// Dispatch-table obligations.  "//@ table[P] classObject.get = objectGet" states that the
// package initialiser stores function objectGet into field get of the struct that the
// global classObject points to.  The fact is read off the SSA of the init functions
// (straight-line stores into a fresh composite literal) and discharged syntactically;
// it justifies the trusted contracts of the dispatcher methods.

type TableFact struct {
	Global, Field, Func string
	Props               []string
	File                string
	Line                int
	Pkg                 string
}

// initTableSlot returns the name of the function stored in field `field` of the struct
// assigned to global `gname` by an init function, or a description of what was found.
func (E *Engine) initTableSlot(pkg, gname, field string) string {
	sp := E.L.SSA[pkg]
	if sp == nil {
		return "?package"
	}
	g := sp.Var(gname)
	if g == nil {
		return "?global"
	}
	var alloc ssa.Value
	nstores := 0
	for _, fn := range E.L.Funcs {
		if fn.Pkg != sp {
			continue
		}
		for _, b := range fn.Blocks {
			for _, in := range b.Instrs {
				if st, ok := in.(*ssa.Store); ok && st.Addr == g {
					nstores++
					alloc = st.Val
				}
			}
		}
	}
	if nstores != 1 || alloc == nil {
		return fmt.Sprintf("?%d stores to %s", nstores, gname)
	}
	a, ok := alloc.(*ssa.Alloc)
	if !ok {
		return "?not a composite literal"
	}
	st, ok := a.Type().(*types.Pointer).Elem().Underlying().(*types.Struct)
	if !ok {
		return "?not a struct"
	}
	idx := -1
	for i := 0; i < st.NumFields(); i++ {
		if st.Field(i).Name() == field {
			idx = i
		}
	}
	if idx < 0 {
		return "?no such field"
	}
	found := ""
	count := 0
	for _, r := range *a.Referrers() {
		fa, ok := r.(*ssa.FieldAddr)
		if !ok || fa.Field != idx {
			continue
		}
		for _, r2 := range *fa.Referrers() {
			if s, ok := r2.(*ssa.Store); ok && s.Addr == fa {
				count++
				v := s.Val
				if ct, ok := v.(*ssa.ChangeType); ok {
					v = ct.X
				}
				switch x := v.(type) {
				case *ssa.Function:
					found = x.Name()
				case *ssa.Const:
					if x.IsNil() {
						found = "nil"
					}
				default:
					found = "?" + v.String()
				}
			}
		}
	}
	if count == 0 {
		return "nil"
	}
	if count > 1 {
		return "?several stores"
	}
	return found
}

func (E *Engine) tableObligations(p string, enc *FnEnc) {
	for _, tf := range E.CS.Tables {
		if !hasProp(tf.Props, p) {
			continue
		}
		got := E.initTableSlot(tf.Pkg, tf.Global, tf.Field)
		cond := "false"
		if got == tf.Func {
			cond = "true"
		}
		text := fmt.Sprintf("%s.%s = %s", tf.Global, tf.Field, tf.Func)
		if cond == "false" {
			text += " -- but the initialiser stores " + got
		}
		o := &Obl{Name: fmt.Sprintf("%s#table[%s.%s]", tf.Pkg, tf.Global, tf.Field), Kind: "table", Func: "lemmas", Props: tf.Props,
			PC: "true", Cond: cond, NDecls: 0, Pos: fmt.Sprintf("%s:%d", strings.TrimPrefix(tf.File, repoDir+"/"), tf.Line), Text: text, enc: enc, Trivial: cond == "true"}
		enc.obls = append(enc.obls, o)
	}
}

// stableKey returns the heap key of a stable field declaration.
func (E *Engine) stableKeys() map[string]*StableField {
	if E.stable != nil {
		return E.stable
	}
	E.stable = map[string]*StableField{}
	for _, sf := range E.CS.StableFields {
		sp := E.L.SSA[sf.Pkg]
		if sp == nil {
			continue
		}
		if sf.TypePrefix != "" {
			for _, name := range sp.Pkg.Scope().Names() {
				tn, ok := sp.Pkg.Scope().Lookup(name).(*types.TypeName)
				if !ok || !strings.HasPrefix(name, sf.TypePrefix) {
					continue
				}
				st, ok := tn.Type().Underlying().(*types.Struct)
				if !ok {
					continue
				}
				for i := 0; i < st.NumFields(); i++ {
					E.stable[fieldKeyOf(tn.Type(), i)] = sf
				}
			}
			continue
		}
		tn, ok := sp.Pkg.Scope().Lookup(sf.Type).(*types.TypeName)
		if !ok {
			continue
		}
		st, ok := tn.Type().Underlying().(*types.Struct)
		if !ok {
			continue
		}
		for i := 0; i < st.NumFields(); i++ {
			if st.Field(i).Name() == sf.Field {
				E.stable[fieldKeyOf(tn.Type(), i)] = sf
			}
		}
	}
	return E.stable
}

// stableObligations: every store to a stable field is rooted at an allocation of the same
// function or happens in a listed writer.
func (E *Engine) stableObligations(p string, enc *FnEnc) {
	keysOf := map[*StableField]map[string]bool{}
	for key, sf := range E.stableKeys() {
		if keysOf[sf] == nil {
			keysOf[sf] = map[string]bool{}
		}
		keysOf[sf][key] = true
	}
	for _, sf := range E.CS.StableFields {
		if !hasProp(sf.Props, p) {
			continue
		}
		keys := keysOf[sf]
		var bad []string
		for _, fk := range E.L.sortedFuncKeys() {
			fn := E.L.Funcs[fk]
			allowed := false
			for _, w := range sf.Writers {
				if w == fk {
					allowed = true
				}
			}
			if allowed {
				continue
			}
			for _, b := range fn.Blocks {
				for _, in := range b.Instrs {
					st, ok := in.(*ssa.Store)
					if !ok {
						continue
					}
					w := map[string]bool{}
					addrKeys(st.Addr, w)
					hit := false
					for k := range w {
						if keys[k] {
							hit = true
						}
					}
					if !hit {
						continue
					}
					if _, fresh := addrRoot(st.Addr).(*ssa.Alloc); fresh {
						continue
					}
					pos := E.L.Prog.Fset.Position(st.Pos())
					exempt := false
					for _, f := range sf.Files {
						if strings.HasSuffix(pos.Filename, "/"+f) {
							exempt = true
						}
					}
					if exempt {
						continue
					}
					bad = append(bad, fmt.Sprintf("%s (%s:%d)", fk, strings.TrimPrefix(pos.Filename, repoDir+"/"), pos.Line))
				}
			}
		}
		what := sf.Type + "." + sf.Field
		if sf.TypePrefix != "" {
			what = fmt.Sprintf("%s* (%d fields)", sf.TypePrefix, len(keys))
		}
		cond := "true"
		text := fmt.Sprintf("%s: assigned only in freshly allocated objects (exempt writers: %s; exempt files: %s)", what, strings.Join(sf.Writers, ", "), strings.Join(sf.Files, ", "))
		if len(bad) > 0 {
			cond = "false"
			text += " -- but also stored by: " + strings.Join(bad, "; ")
		}
		enc.obls = append(enc.obls, &Obl{Name: fmt.Sprintf("%s#frame.stable[%s]", sf.Pkg, what), Kind: "frame.stable", Func: "lemmas",
			Props: sf.Props, PC: "true", Cond: cond, Pos: fmt.Sprintf("%s:%d", strings.TrimPrefix(sf.File, repoDir+"/"), sf.Line), Text: text, enc: enc, Trivial: cond == "true"})
	}
}
