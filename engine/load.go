package main

import (
	"fmt"
	"go/types"
	"os"
	"sort"
	"strings"

	"golang.org/x/tools/go/packages"
	"golang.org/x/tools/go/ssa"
	"golang.org/x/tools/go/ssa/ssautil"
)

// repoDir is the tree under verification: /repo, or a scratch copy for the must-fail
// selftest (GOWP_REPO), never anything else.
var repoDir = func() string {
	if d := os.Getenv("GOWP_REPO"); d != "" {
		return d
	}
	return "/repo"
}()

// Loaded holds the typed and SSA form of the repository's current working tree.
type Loaded struct {
	Pkgs  []*packages.Package
	Prog  *ssa.Program
	SSA   map[string]*ssa.Package // by short name: otto, parser, ast, file, token, registry
	Funcs map[string]*ssa.Function
}

var ottoPkgs = []string{
	"github.com/robertkrimen/otto",
	"github.com/robertkrimen/otto/parser",
	"github.com/robertkrimen/otto/ast",
	"github.com/robertkrimen/otto/file",
	"github.com/robertkrimen/otto/token",
	"github.com/robertkrimen/otto/registry",
}

func loadRepo() (*Loaded, error) {
	cfg := &packages.Config{
		Mode:       packages.LoadAllSyntax,
		Dir:        repoDir,
		BuildFlags: []string{"-tags=verif"},
		Env: append(os.Environ(), "GOFLAGS=-mod=mod", "GOPROXY=off", "GOSUMDB=off",
			"GOTOOLCHAIN=local"),
	}
	pkgs, err := packages.Load(cfg, ottoPkgs...)
	if err != nil {
		return nil, err
	}
	var errs []string
	packages.Visit(pkgs, nil, func(p *packages.Package) {
		for _, e := range p.Errors {
			errs = append(errs, e.Error())
		}
	})
	if len(errs) > 0 {
		return nil, fmt.Errorf("load errors:\n%s", strings.Join(errs, "\n"))
	}
	prog, spkgs := ssautil.AllPackages(pkgs, ssa.InstantiateGenerics|ssa.GlobalDebug)
	prog.Build()
	l := &Loaded{Pkgs: pkgs, Prog: prog, SSA: map[string]*ssa.Package{}, Funcs: map[string]*ssa.Function{}}
	for i, p := range pkgs {
		if spkgs[i] == nil {
			return nil, fmt.Errorf("no ssa for %s", p.PkgPath)
		}
		l.SSA[p.Name] = spkgs[i]
		for _, imp := range p.Imports {
			if imp.Name == "unsafe" || imp.PkgPath == "unsafe" {
				return nil, fmt.Errorf("subset violated: package %s imports unsafe", p.PkgPath)
			}
		}
	}
	for fn := range ssautil.AllFunctions(prog) {
		if fn.Pkg == nil {
			continue
		}
		if _, ok := l.SSA[fn.Pkg.Pkg.Name()]; !ok || l.SSA[fn.Pkg.Pkg.Name()] != fn.Pkg {
			continue
		}
		l.Funcs[funcKey(fn)] = fn
	}
	return l, nil
}

// funcKey names a function the way contracts refer to it:
//   otto.toInt32, otto.(Value).float64, otto.(*runtime).enterScope, parser.(*parser).read
// anonymous functions: parent key + "$n".
func funcKey(fn *ssa.Function) string {
	if fn.Parent() != nil {
		return funcKey(fn.Parent()) + strings.TrimPrefix(fn.Name(), fn.Parent().Name())
	}
	pkg := ""
	if fn.Pkg != nil {
		pkg = fn.Pkg.Pkg.Name()
	}
	if recv := fn.Signature.Recv(); recv != nil {
		t := recv.Type()
		star := ""
		if p, ok := t.(*types.Pointer); ok {
			t = p.Elem()
			star = "*"
		}
		name := t.String()
		if n, ok := t.(*types.Named); ok {
			name = n.Obj().Name()
		}
		return fmt.Sprintf("%s.(%s%s).%s", pkg, star, name, fn.Name())
	}
	return pkg + "." + fn.Name()
}

func (l *Loaded) sortedFuncKeys() []string {
	var ks []string
	for k := range l.Funcs {
		ks = append(ks, k)
	}
	sort.Strings(ks)
	return ks
}
