package main

import (
	"fmt"
	"regexp"
	"go/token"
	"go/types"
	"strings"

	"golang.org/x/tools/go/ssa"
)

func (f *frame) instr(in ssa.Instruction) {
	e := f.enc
	switch x := in.(type) {
	case *ssa.DebugRef:
	case *ssa.Alloc:
		f.alloc(x)
	case *ssa.Store:
		f.store(x)
	case *ssa.UnOp:
		f.unop(x)
	case *ssa.BinOp:
		f.binop(x)
	case *ssa.FieldAddr:
		f.fieldAddr(x)
	case *ssa.Field:
		sv := f.get(x.X)
		si := e.R.structOf(x.X.Type())
		f.defineVal(x, fmt.Sprintf("(%s %s)", si.fields[x.Field], sv.term))
	case *ssa.IndexAddr:
		f.indexAddr(x)
	case *ssa.Index:
		f.index(x)
	case *ssa.Extract:
		sv := f.get(x.Tuple)
		if sv.tuple == nil {
			bail("extract from non-tuple")
		}
		f.vals[x] = sv.tuple[x.Index]
	case *ssa.TypeAssert:
		f.typeAssert(x)
	case *ssa.MakeInterface:
		f.makeInterface(x)
	case *ssa.ChangeInterface:
		f.set(x, f.scalar(x.X))
	case *ssa.ChangeType:
		sv := f.get(x.X)
		if sv.loc != nil {
			f.vals[x] = SV{t: x.Type(), loc: sv.loc}
		} else {
			f.set(x, sv.term)
		}
	case *ssa.Convert:
		f.convert(x)
	case *ssa.Slice:
		f.slice(x)
	case *ssa.MakeSlice:
		f.makeSlice(x)
	case *ssa.MakeMap:
		f.allocRef(x)
		// a new map has no entries and is private until its reference escapes
		if mt, ok := x.Type().Underlying().(*types.Map); ok {
			f.locals = append(f.locals, localAlloc{ref: f.vals[x].term, t: mt})
			_, _, pk, ps := f.enc.mapHeapKeys(mt)
			cp := f.enc.heapGet(f.curHeap, pk, ps)
			empty := fmt.Sprintf("((as const (Array %s Bool)) false)", f.enc.R.sortOf(mt.Key()))
			f.enc.heapSet(f.curHeap, pk, ps, fmt.Sprintf("(store %s %s %s)", cp, f.vals[x].term, empty))
		}
	case *ssa.MakeChan:
		f.allocRef(x)
	case *ssa.MakeClosure:
		// closure value: opaque reference; bindings may escape, unless the closure is only
		// called or deferred right here (its body is then encoded inline)
		if !closureLocal(x) {
			for i, b := range x.Bindings {
				// a captured variable that the closure only reads keeps its value however
				// often and from wherever the closure is called
				if cf, ok := x.Fn.(*ssa.Function); ok && i < len(cf.FreeVars) && freeVarReadOnly(cf, cf.FreeVars[i]) {
					if _, isAlloc := b.(*ssa.Alloc); isAlloc {
						continue
					}
				}
				f.escape(b)
			}
		}
		f.allocRef(x)
	case *ssa.Lookup:
		f.lookup(x)
	case *ssa.MapUpdate:
		f.mapUpdate(x)
	case *ssa.Range:
		f.vals[x] = SV{t: x.Type(), term: "0"}
	case *ssa.Next:
		f.next(x)
	case *ssa.Call:
		f.call(x)
	case *ssa.Defer:
		f.deferCall(x)
	case *ssa.RunDefers:
		f.runDefers(x)
	case *ssa.Go:
		bail("go statement in %s", f.fn.Name())
	case *ssa.Send:
		bail("channel send in %s", f.fn.Name())
	case *ssa.Select:
		f.selectInstr(x)
	case *ssa.Panic:
		f.panicInstr(x)
	case *ssa.Return:
		var vals []SV
		for _, r := range x.Results {
			vals = append(vals, f.get(r))
		}
		f.rets = append(f.rets, retInfo{pc: f.curPC, vals: vals, heap: f.curHeap.clone(), blk: f.curBlock})
	case *ssa.If, *ssa.Jump:
	case *ssa.SliceToArrayPointer:
		bail("slice to array pointer")
	case *ssa.MultiConvert:
		bail("multiconvert")
	default:
		bail("unsupported instruction %T in %s", in, f.fn.Name())
	}
}

// ---------------------------------------------------------------------------

func (f *frame) newRef() string {
	f.enc.allocCtr++
	return fmt.Sprintf("(- %d)", f.enc.allocCtr)
}

func (f *frame) allocRef(v ssa.Value) {
	f.set(v, f.newRef())
}

// freeVarReadOnly: the closure body uses the captured variable only by loading from it.
func freeVarReadOnly(fn *ssa.Function, fv *ssa.FreeVar) bool {
	refs := fv.Referrers()
	if refs == nil {
		return false
	}
	for _, r := range *refs {
		switch y := r.(type) {
		case *ssa.UnOp:
			if y.Op != token.MUL {
				return false
			}
		case *ssa.DebugRef:
		default:
			return false
		}
	}
	return true
}

// closureLocal: the closure value is used only as the callee of calls and defers of the
// function that creates it.
func closureLocal(x *ssa.MakeClosure) bool {
	crefs := x.Referrers()
	if crefs == nil {
		return false
	}
	for _, cr := range *crefs {
		switch y := cr.(type) {
		case *ssa.Defer:
			if y.Call.Value != x {
				return false
			}
		case *ssa.Call:
			if y.Call.Value != x {
				return false
			}
		case *ssa.DebugRef:
		default:
			return false
		}
	}
	return true
}

// allocEscapes: may the address of this allocation (or of a part of it) be observed by
// code other than the loads and stores of this function?
func allocEscapes(v ssa.Value, depth int) bool {
	if depth > 6 {
		return true
	}
	refs := v.Referrers()
	if refs == nil {
		return true
	}
	for _, r := range *refs {
		switch x := r.(type) {
		case *ssa.FieldAddr:
			if allocEscapes(x, depth+1) {
				return true
			}
		case *ssa.IndexAddr:
			if x.X != v || allocEscapes(x, depth+1) {
				return true
			}
		case *ssa.UnOp:
			if x.Op != token.MUL {
				return true
			}
		case *ssa.Store:
			if x.Val == v {
				return true
			}
		case *ssa.DebugRef:
		case *ssa.MakeClosure:
			// captured by a closure that is only called or deferred right here
			crefs := x.Referrers()
			if crefs == nil {
				return true
			}
			for _, cr := range *crefs {
				switch y := cr.(type) {
				case *ssa.Defer:
					if y.Call.Value != x {
						return true
					}
				case *ssa.Call:
					if y.Call.Value != x {
						return true
					}
				case *ssa.DebugRef:
				default:
					return true
				}
			}
		default:
			return true
		}
	}
	return false
}

func (f *frame) alloc(x *ssa.Alloc) {
	e := f.enc
	t := x.Type().(*types.Pointer).Elem()
	ref := f.newRef()
	// every allocation is private until its reference escapes (tracked as the encoding
	// proceeds): callees and havocs cannot touch it before that
	f.locals = append(f.locals, localAlloc{ref: ref, t: t})
	switch u := t.Underlying().(type) {
	case *types.Struct:
		f.vals[x] = SV{t: x.Type(), term: ref}
		f.storeStruct(ref, t, e.zeroValue(t), f.curHeap)
	case *types.Array:
		f.vals[x] = SV{t: x.Type(), term: ref}
		key, sort := e.elemHeapKey(u.Elem())
		cur := e.heapGet(f.curHeap, key, sort)
		zero := e.constArray("(Array (_ BitVec 64) "+e.R.sortOf(u.Elem())+")", e.zeroValue(u.Elem()))
		e.heapSet(f.curHeap, key, sort, fmt.Sprintf("(store %s %s %s)", cur, ref, zero))
	default:
		l := &Loc{kind: locCell, base: ref, elemT: t}
		f.vals[x] = SV{t: x.Type(), loc: l}
		f.storeLoc(l, e.zeroValue(t), f.curHeap)
	}
}

// escape records that the value may reach memory/code that is not tracked precisely.
func (f *frame) escape(v ssa.Value) {
	if _, ok := v.Type().Underlying().(*types.Pointer); ok {
		f.enc.escaped = true
	}
	sv, ok := f.vals[v]
	if !ok {
		return
	}
	f.enc.escapeTerm(sv)
}

// escapeTerm: a fresh reference "(- k)" inside the value becomes visible to other code.
func (e *FnEnc) escapeTerm(sv SV) {
	refs := e.freshIn(sv.term)
	if sv.loc != nil {
		refs = append(refs, e.freshIn(sv.loc.base)...)
	}
	for _, t := range sv.tuple {
		refs = append(refs, e.freshIn(t.term)...)
	}
	for _, r := range refs {
		if e.escapedSeen == nil {
			e.escapedSeen = map[string]bool{}
		}
		if !e.escapedSeen[r] {
			e.escapedSeen[r] = true
			e.escapedRefs = append(e.escapedRefs, r)
		}
		if e.escapedAt == nil {
			e.escapedAt = map[string][]*ssa.BasicBlock{}
		}
		e.escapedAt[r] = append(e.escapedAt[r], e.escapeBlock)
	}
}

var freshRefRe = regexp.MustCompile(`\(- [0-9]+\)`)

// addrOf turns a pointer-typed SSA operand into a location.
func (f *frame) addrOf(v ssa.Value) *Loc {
	sv := f.get(v)
	if sv.loc != nil {
		return sv.loc
	}
	pt, ok := v.Type().Underlying().(*types.Pointer)
	if !ok {
		bail("addrOf non-pointer")
	}
	return &Loc{kind: locCell, base: sv.term, elemT: pt.Elem()}
}

func (f *frame) nilCheck(v ssa.Value, what string, pos token.Pos, kind string) {
	sv := f.get(v)
	if sv.loc != nil {
		return // derived address: its base was checked when it was formed
	}
	if _, ok := v.(*ssa.Alloc); ok {
		return
	}
	text := f.enc.srcText(f.fn, pos, kind)
	if text == "" {
		text = what
	}
	f.oblige("safety.nil", text, fmt.Sprintf("(not (= %s 0))", sv.term), text, pos)
	f.assume(fmt.Sprintf("(not (= %s 0))", sv.term))
}

func (f *frame) store(x *ssa.Store) {
	l := f.addrOf(x.Addr)
	if l.kind == locCell {
		f.nilCheck(x.Addr, "*"+x.Addr.Name(), x.Pos(), "star")
	}
	val := f.get(x.Val)
	if val.loc != nil {
		val = SV{t: val.t, term: f.scalar(x.Val)}
	}
	if _, ok := x.Val.Type().Underlying().(*types.Pointer); ok {
		if l.kind != locCell || !strings.HasPrefix(l.base, "(- ") {
			f.enc.escaped = true
		}
	}
	// a reference stored anywhere may be read back by other code later: conservative
	f.enc.escapeTerm(val)
	if _, fresh := addrRoot(x.Addr).(*ssa.Alloc); !fresh && !f.isLocalBase(l) {
		f.wrote("store " + f.enc.srcText(f.fn, x.Pos(), "star"))
	}
	f.storeLoc(l, val.term, f.curHeap)
}

func (f *frame) isLocalBase(l *Loc) bool {
	if l.kind == locGlobal {
		return false
	}
	for fr := f; fr != nil; fr = fr.parent {
		for _, la := range fr.locals {
			if la.ref == l.base && !f.enc.escapedSeen[la.ref] {
				return true
			}
		}
	}
	return false
}

func (f *frame) unop(x *ssa.UnOp) {
	e := f.enc
	switch x.Op {
	case token.MUL: // load
		l := f.addrOf(x.X)
		if l.kind == locCell {
			f.nilCheck(x.X, "*"+x.X.Name(), x.Pos(), "star")
		}
		term := f.loadLoc(l, f.curHeap)
		f.defineVal(x, term)
		f.assume(e.typeInv(f.vals[x].term, x.Type(), 1))
		if top := e.top; top != nil && top.contract != nil && top.contract.AssumeLoads != "" {
			if _, isIface := x.Type().Underlying().(*types.Interface); isIface && l.kind != locCell {
				e.pendingLoads = append(e.pendingLoads, SV{t: x.Type(), term: f.vals[x].term})
				e.note("assumed (data-structure invariant, established by the constructors, not proved): " + top.contract.AssumeLoads + " holds of every interface value stored in a field or element")
			}
		}
	case token.NOT:
		f.defineVal(x, not(f.scalar(x.X)))
	case token.SUB:
		s := e.R.sortOf(x.Type())
		if isFloatSort(s) {
			f.defineVal(x, fmt.Sprintf("(fp.neg %s)", f.scalar(x.X)))
		} else {
			f.defineVal(x, fmt.Sprintf("(bvneg %s)", f.scalar(x.X)))
		}
	case token.XOR:
		f.defineVal(x, fmt.Sprintf("(bvnot %s)", f.scalar(x.X)))
	case token.ARROW:
		f.havocVal(x)
	default:
		bail("unop %s", x.Op)
	}
}

func (f *frame) binop(x *ssa.BinOp) {
	a, b := f.get(x.X), f.get(x.Y)
	if a.loc != nil {
		a = SV{t: a.t, term: f.scalar(x.X)}
	}
	if b.loc != nil {
		b = SV{t: b.t, term: f.scalar(x.Y)}
	}
	term := f.enc.binopTerm(f, x.Op, a, b, x.X.Type(), x.Y.Type(), x.Pos())
	f.defineVal(x, term)
}

// binopTerm encodes Go's binary operators exactly (wrap-around integers, IEEE floats).
func (e *FnEnc) binopTerm(f *frame, op token.Token, a, b SV, ta, tb types.Type, pos token.Pos) string {
	if a.loc != nil || b.loc != nil {
		bail("binary operator on address values")
	}
	s := e.R.sortOf(ta)
	x, y := a.term, b.term
	signed := isSigned(ta)
	switch {
	case s == "Bool":
		switch op {
		case token.EQL:
			return fmt.Sprintf("(= %s %s)", x, y)
		case token.NEQ:
			return fmt.Sprintf("(not (= %s %s))", x, y)
		case token.LAND, token.AND:
			return and(x, y)
		case token.LOR, token.OR:
			return or(x, y)
		}
	case isBVSort(s):
		n := bitsOfSort(s)
		switch op {
		case token.ADD:
			return fmt.Sprintf("(bvadd %s %s)", x, y)
		case token.SUB:
			return fmt.Sprintf("(bvsub %s %s)", x, y)
		case token.MUL:
			return fmt.Sprintf("(bvmul %s %s)", x, y)
		case token.QUO, token.REM:
			if f != nil {
				text := e.srcText(f.fn, pos, "binary")
				f.oblige("safety.div", text, fmt.Sprintf("(not (= %s %s))", y, bvLit(0, n)), text, pos)
				f.assume(fmt.Sprintf("(not (= %s %s))", y, bvLit(0, n)))
			}
			if op == token.QUO {
				if signed {
					return fmt.Sprintf("(bvsdiv %s %s)", x, y)
				}
				return fmt.Sprintf("(bvudiv %s %s)", x, y)
			}
			if signed {
				return fmt.Sprintf("(bvsrem %s %s)", x, y)
			}
			return fmt.Sprintf("(bvurem %s %s)", x, y)
		case token.AND:
			return fmt.Sprintf("(bvand %s %s)", x, y)
		case token.OR:
			return fmt.Sprintf("(bvor %s %s)", x, y)
		case token.XOR:
			return fmt.Sprintf("(bvxor %s %s)", x, y)
		case token.AND_NOT:
			return fmt.Sprintf("(bvand %s (bvnot %s))", x, y)
		case token.SHL, token.SHR:
			// shift count has its own type; Go: count >= width gives 0 (or sign fill)
			m := bitsOfSort(e.R.sortOf(tb))
			cnt := y
			if isSigned(tb) && f != nil {
				text := e.srcText(f.fn, pos, "binary")
				f.oblige("safety.shift", text, fmt.Sprintf("(bvsge %s %s)", y, bvLit(0, m)), text, pos)
				f.assume(fmt.Sprintf("(bvsge %s %s)", y, bvLit(0, m)))
			}
			big := "false"
			if m > n {
				big = fmt.Sprintf("(bvuge %s %s)", y, bvLit(int64(n), m))
				cnt = fmt.Sprintf("((_ extract %d 0) %s)", n-1, y)
			} else if m < n {
				cnt = fmt.Sprintf("((_ zero_extend %d) %s)", n-m, y)
			}
			if op == token.SHL {
				return ite(big, bvLit(0, n), fmt.Sprintf("(bvshl %s %s)", x, cnt))
			}
			if signed {
				return ite(big, fmt.Sprintf("(bvashr %s %s)", x, bvLit(int64(n-1), n)), fmt.Sprintf("(bvashr %s %s)", x, cnt))
			}
			return ite(big, bvLit(0, n), fmt.Sprintf("(bvlshr %s %s)", x, cnt))
		case token.EQL:
			return fmt.Sprintf("(= %s %s)", x, y)
		case token.NEQ:
			return fmt.Sprintf("(not (= %s %s))", x, y)
		case token.LSS, token.LEQ, token.GTR, token.GEQ:
			opn := map[token.Token]string{token.LSS: "lt", token.LEQ: "le", token.GTR: "gt", token.GEQ: "ge"}[op]
			if signed {
				return fmt.Sprintf("(bvs%s %s %s)", opn, x, y)
			}
			return fmt.Sprintf("(bvu%s %s %s)", opn, x, y)
		}
	case isFloatSort(s):
		switch op {
		case token.ADD:
			return fmt.Sprintf("(fp.add RNE %s %s)", x, y)
		case token.SUB:
			return fmt.Sprintf("(fp.sub RNE %s %s)", x, y)
		case token.MUL:
			return fmt.Sprintf("(fp.mul RNE %s %s)", x, y)
		case token.QUO:
			return fmt.Sprintf("(fp.div RNE %s %s)", x, y)
		case token.EQL:
			return fmt.Sprintf("(fp.eq %s %s)", x, y)
		case token.NEQ:
			return fmt.Sprintf("(not (fp.eq %s %s))", x, y)
		case token.LSS:
			return fmt.Sprintf("(fp.lt %s %s)", x, y)
		case token.LEQ:
			return fmt.Sprintf("(fp.leq %s %s)", x, y)
		case token.GTR:
			return fmt.Sprintf("(fp.gt %s %s)", x, y)
		case token.GEQ:
			return fmt.Sprintf("(fp.geq %s %s)", x, y)
		}
	case s == "Str":
		switch op {
		case token.ADD:
			n := e.define(e.fresh("scat"), "Str", fmt.Sprintf("(scat %s %s)", x, y))
			if f != nil {
				f.assume(fmt.Sprintf("(= (slen %s) (bvadd (slen %s) (slen %s)))", n, x, y))
				// bytes of short concatenations (quantifier-free): the first four bytes of x
				// and the first four bytes of y keep their values at their new positions
				for k := int64(0); k < 4; k++ {
					f.assume(fmt.Sprintf("(=> (bvsgt (slen %s) %s) (= (sbyte %s %s) (sbyte %s %s)))", x, bvLit(k, 64), n, bvLit(k, 64), x, bvLit(k, 64)))
					f.assume(fmt.Sprintf("(=> (bvsgt (slen %s) %s) (= (sbyte %s (bvadd (slen %s) %s)) (sbyte %s %s)))", y, bvLit(k, 64), n, x, bvLit(k, 64), y, bvLit(k, 64)))
				}
			}
			return n
		case token.EQL, token.NEQ:
			// comparison with "": exactly the strings of length 0
			empty := e.R.strConst("")
			eq := fmt.Sprintf("(= %s %s)", x, y)
			if x == empty {
				eq = fmt.Sprintf("(= (slen %s) #x0000000000000000)", y)
			} else if y == empty {
				eq = fmt.Sprintf("(= (slen %s) #x0000000000000000)", x)
			}
			if op == token.NEQ {
				return not(eq)
			}
			return eq
		case token.LSS, token.LEQ, token.GTR, token.GEQ:
			e.R.extra("(declare-fun sless (Str Str) Bool)")
			switch op {
			case token.LSS:
				return fmt.Sprintf("(sless %s %s)", x, y)
			case token.GTR:
				return fmt.Sprintf("(sless %s %s)", y, x)
			case token.LEQ:
				return fmt.Sprintf("(not (sless %s %s))", y, x)
			default:
				return fmt.Sprintf("(not (sless %s %s))", x, y)
			}
		}
	default:
		// references, interfaces, structs, slices (only == nil for slices)
		switch op {
		case token.EQL, token.NEQ:
			eq := fmt.Sprintf("(= %s %s)", x, y)
			if s == "Slice" {
				// comparison with nil only
				other := x
				if x == "nil-slice" {
					other = y
				}
				eq = fmt.Sprintf("(= (sl-ref %s) 0)", other)
			}
			if s == "Iface" && f != nil {
				e.note("interface == compares dynamic type and payload structurally (pointer payloads by reference)")
			}
			if op == token.NEQ {
				return not(eq)
			}
			return eq
		}
	}
	bail("binop %s on sort %s", op, s)
	return ""
}

func (f *frame) fieldAddr(x *ssa.FieldAddr) {
	sv := f.get(x.X)
	owner := x.X.Type().Underlying().(*types.Pointer).Elem()
	ft := owner.Underlying().(*types.Struct).Field(x.Field).Type()
	if sv.loc != nil {
		l := sv.loc
		switch l.kind {
		case locField:
			nl := *l
			nl.path = append(append([]int{}, l.path...), x.Field)
			nl.elemT = ft
			f.vals[x] = SV{t: x.Type(), loc: &nl}
			return
		case locCell:
			// address-taken local struct: treat the cell ref as a struct ref
			f.vals[x] = SV{t: x.Type(), loc: &Loc{kind: locField, base: l.base, owner: owner, path: []int{x.Field}, elemT: ft}}
			return
		case locGlobal:
			f.vals[x] = SV{t: x.Type(), loc: &Loc{kind: locField, base: f.enc.globalAddr(l.global), owner: owner, path: []int{x.Field}, elemT: ft}}
			return
		}
		bail("field address of element/global address in %s", f.fn.Name())
	}
	pos := x.Pos()
	f.nilCheck(x.X, x.X.Name()+"."+owner.Underlying().(*types.Struct).Field(x.Field).Name(), pos, "sel")
	f.vals[x] = SV{t: x.Type(), loc: &Loc{kind: locField, base: sv.term, owner: owner, path: []int{x.Field}, elemT: ft}}
}

func sext(term string, from, to int) string {
	if to == from {
		return term
	}
	if to < from {
		return fmt.Sprintf("((_ extract %d 0) %s)", to-1, term)
	}
	return fmt.Sprintf("((_ sign_extend %d) %s)", to-from, term)
}

func zext(term string, from, to int) string {
	if to == from {
		return term
	}
	if to < from {
		return fmt.Sprintf("((_ extract %d 0) %s)", to-1, term)
	}
	return fmt.Sprintf("((_ zero_extend %d) %s)", to-from, term)
}

// idx64 widens an index operand to 64 bits (Go converts indices to int).
func (f *frame) idx64(v ssa.Value) string {
	t := f.scalar(v)
	n := bitsOfSort(f.enc.R.sortOf(v.Type()))
	if n == 0 {
		bail("index of non-integer sort")
	}
	if isSigned(v.Type()) {
		return sext(t, n, 64)
	}
	return zext(t, n, 64)
}

func (f *frame) boundsOblige(kind string, pos token.Pos, astKind string, cond string) {
	text := f.enc.srcText(f.fn, pos, astKind)
	f.oblige(kind, text, cond, text, pos)
	f.assume(cond)
}

func (f *frame) indexAddr(x *ssa.IndexAddr) {
	e := f.enc
	i := f.idx64(x.Index)
	switch t := x.X.Type().Underlying().(type) {
	case *types.Slice:
		s := f.scalar(x.X)
		f.boundsOblige("safety.index", x.Pos(), "index", fmt.Sprintf("(bvult %s (sl-len %s))", i, s))
		f.vals[x] = SV{t: x.Type(), loc: &Loc{kind: locElem, base: fmt.Sprintf("(sl-ref %s)", s),
			idx: fmt.Sprintf("(bvadd (sl-off %s) %s)", s, i), elemT: t.Elem()}}
	case *types.Pointer:
		arr := t.Elem().Underlying().(*types.Array)
		sv := f.get(x.X)
		if sv.loc != nil && sv.loc.kind == locGlobal && sv.loc.idx == "" {
			// element of a package-level array variable
			if _, isConst := x.Index.(*ssa.Const); !isConst {
				f.boundsOblige("safety.index", x.Pos(), "index", fmt.Sprintf("(bvult %s %s)", i, bvLit(arr.Len(), 64)))
			}
			f.vals[x] = SV{t: x.Type(), loc: &Loc{kind: locGlobal, global: sv.loc.global, idx: i, elemT: arr.Elem(), owner: t.Elem()}}
			return
		}
		if sv.loc != nil {
			bail("index of array inside struct/global by address (%s)", f.fn.Name())
		}
		f.nilCheck(x.X, x.X.Name(), x.Pos(), "index")
		if _, isConst := x.Index.(*ssa.Const); !isConst {
			f.boundsOblige("safety.index", x.Pos(), "index", fmt.Sprintf("(bvult %s %s)", i, bvLit(arr.Len(), 64)))
		}
		f.vals[x] = SV{t: x.Type(), loc: &Loc{kind: locElem, base: sv.term, idx: i, elemT: arr.Elem()}}
	default:
		bail("indexaddr on %s", x.X.Type())
	}
	_ = e
}

func (f *frame) index(x *ssa.Index) {
	e := f.enc
	i := f.idx64(x.Index)
	switch t := x.X.Type().Underlying().(type) {
	case *types.Basic: // string
		s := f.scalar(x.X)
		f.boundsOblige("safety.index", x.Pos(), "index", fmt.Sprintf("(bvult %s (slen %s))", i, s))
		if base, ok := f.enc.subOf[s]; ok {
			// byte of a substring = byte of the string it was cut from
			f.defineVal(x, fmt.Sprintf("(sbyte %s (bvadd %s %s))", base[0], base[1], i))
		} else {
			f.defineVal(x, fmt.Sprintf("(sbyte %s %s)", s, i))
		}
	case *types.Array:
		a := f.scalar(x.X)
		if _, isConst := x.Index.(*ssa.Const); !isConst {
			f.boundsOblige("safety.index", x.Pos(), "index", fmt.Sprintf("(bvult %s %s)", i, bvLit(t.Len(), 64)))
		}
		f.defineVal(x, fmt.Sprintf("(select %s %s)", a, i))
	default:
		bail("index on %s", x.X.Type())
	}
	_ = e
}

func (f *frame) typeAssert(x *ssa.TypeAssert) {
	e := f.enc
	v := f.scalar(x.X)
	if _, isIface := x.AssertedType.Underlying().(*types.Interface); isIface {
		// interface-to-interface: succeeds iff the dynamic type implements the interface;
		// decided statically for the dynamic types known to the query, unknown for others
		okT, _ := e.havoc(f.name(x)+"!ok", types.Typ[types.Bool])
		iface := x.AssertedType.Underlying().(*types.Interface)
		var yes []string
		for _, m := range e.R.ifaceOrder {
			dt := e.R.ifaceTypes[m]
			if types.Implements(dt, iface) {
				yes = append(yes, fmt.Sprintf("((_ is I_%s) %s)", m, v))
			}
		}
		yes = append(yes, and(fmt.Sprintf("((_ is I_other) %s)", v), okT))
		ok := or(yes...)
		if x.CommaOk {
			val := ite(ok, v, "I_nil")
			f.vals[x] = SV{t: x.Type(), tuple: []SV{{t: x.AssertedType, term: e.define(f.name(x)+"!v", "Iface", val)},
				{t: types.Typ[types.Bool], term: e.define(f.name(x)+"!okv", "Bool", ok)}}}
			return
		}
		text := e.srcText(f.fn, x.Pos(), "assert")
		f.oblige("safety.typeassert", text, ok, text, x.Pos())
		f.assume(ok)
		f.set(x, v)
		return
	}
	ctor := e.R.ifaceCtor(x.AssertedType)
	sel := "v_" + strings.TrimPrefix(ctor, "I_")
	is := fmt.Sprintf("((_ is %s) %s)", ctor, v)
	s := e.R.sortOf(x.AssertedType)
	if x.CommaOk {
		okN := e.define(f.name(x)+"!ok", "Bool", is)
		valN := e.define(f.name(x)+"!v", s, ite(okN, fmt.Sprintf("(%s %s)", sel, v), e.zeroValue(x.AssertedType)))
		f.vals[x] = SV{t: x.Type(), tuple: []SV{{t: x.AssertedType, term: valN}, {t: types.Typ[types.Bool], term: okN}}}
		f.assume(e.typeInv(valN, x.AssertedType, 1))
		return
	}
	text := e.srcText(f.fn, x.Pos(), "assert")
	f.oblige("safety.typeassert", text, is, text, x.Pos())
	f.assume(is)
	f.defineVal(x, fmt.Sprintf("(%s %s)", sel, v))
	f.assume(e.typeInv(f.vals[x].term, x.AssertedType, 1))
}

func (f *frame) makeInterface(x *ssa.MakeInterface) {
	e := f.enc
	sv := f.get(x.X)
	if sv.loc != nil && sv.loc.kind != locCell {
		bail("address boxed into interface in %s", f.fn.Name())
	}
	f.escape(x.X)
	ctor := e.R.ifaceCtor(x.X.Type())
	term := sv.term
	if sv.loc != nil {
		// address of a local variable: the reference of its cell; whoever receives the
		// interface may write through it
		term = sv.loc.base
		e.escapeTerm(SV{term: term})
	}
	f.defineVal(x, fmt.Sprintf("(%s %s)", ctor, term))
}

func (f *frame) convert(x *ssa.Convert) {
	term, inv := f.enc.convertTerm(f.get(x.X).term, x.X.Type(), x.Type(), f)
	f.defineVal(x, term)
	f.assume(inv)
}

// convertTerm: Go conversion between basic types, with the amd64 float->int model.
func (e *FnEnc) convertTerm(v string, from, to types.Type, f *frame) (string, string) {
	fs, ts := e.R.sortOf(from), e.R.sortOf(to)
	switch {
	case isBVSort(fs) && isBVSort(ts):
		n, m := bitsOfSort(fs), bitsOfSort(ts)
		if isSigned(from) {
			return sext(v, n, m), "true"
		}
		return zext(v, n, m), "true"
	case isBVSort(fs) && isFloatSort(ts):
		eb, sb := 11, 53
		if ts == "Float32" {
			eb, sb = 8, 24
		}
		if isSigned(from) {
			return fmt.Sprintf("((_ to_fp %d %d) RNE %s)", eb, sb, v), "true"
		}
		return fmt.Sprintf("((_ to_fp_unsigned %d %d) RNE %s)", eb, sb, v), "true"
	case isFloatSort(fs) && isFloatSort(ts):
		if fs == ts {
			return v, "true"
		}
		if ts == "Float64" {
			return fmt.Sprintf("((_ to_fp 11 53) RNE %s)", v), "true"
		}
		return fmt.Sprintf("((_ to_fp 8 24) RNE %s)", v), "true"
	case isFloatSort(fs) && isBVSort(ts):
		return e.floatToInt(v, fs, to), "true"
	case fs == "Str" && ts == "Slice", fs == "Slice" && ts == "Str", isBVSort(fs) && ts == "Str":
		// []byte(s), []rune(s), string(bytes), string(rune): contents not modelled
		if f == nil {
			bail("string/slice conversion in contract")
		}
		if fs == "Str" && ts == "Slice" {
			// the result lives in a fresh backing array: its reference must be admitted by
			// the reference invariant of the havocked slice value
			e.allocCtr++
			e.escapeTerm(SV{term: fmt.Sprintf("(- %d)", e.allocCtr)})
		}
		n, inv := e.havoc("conv", to)
		var extra string
		if fs == "Str" && ts == "Slice" {
			el := to.Underlying().(*types.Slice).Elem().Underlying().(*types.Basic)
			if el.Kind() == types.Uint8 {
				extra = fmt.Sprintf("(= (sl-len %s) (slen %s))", n, v)
			} else {
				extra = fmt.Sprintf("(bvsle (sl-len %s) (slen %s))", n, v)
			}
			// fresh backing array
			extra = and(extra, fmt.Sprintf("(= (sl-ref %s) (ite (= (sl-len %s) #x0000000000000000) (sl-ref %s) (- %d)))", n, n, n, e.allocCtr),
				fmt.Sprintf("(= (sl-off %s) #x0000000000000000)", n))
		} else if fs == "Slice" {
			el := from.Underlying().(*types.Slice).Elem().Underlying().(*types.Basic)
			if el.Kind() == types.Uint8 {
				extra = fmt.Sprintf("(= (slen %s) (sl-len %s))", n, v)
				// string(bytes): the first byte is carried over (enough to see a sign or a digit)
				k8, s8 := e.elemHeapKey(types.Typ[types.Uint8])
				first := fmt.Sprintf("(select (select %s (sl-ref %s)) (sl-off %s))", e.heapGet(f.curHeap, k8, s8), v, v)
				extra = and(extra, fmt.Sprintf("(=> (bvsgt (sl-len %s) #x0000000000000000) (= (sbyte %s #x0000000000000000) %s))", v, n, first))
			} else {
				extra = fmt.Sprintf("(bvsle (slen %s) (bvmul #x0000000000000004 (sl-len %s)))", n, v)
			}
		} else {
			extra = fmt.Sprintf("(and (bvsle #x0000000000000001 (slen %s)) (bvsle (slen %s) #x0000000000000004))", n, n)
		}
		return n, and(inv, extra)
	case fs == ts:
		return v, "true"
	case fs == "Int" && ts == "Int":
		return v, "true"
	}
	bail("conversion %s -> %s", from, to)
	return "", ""
}

// floatToInt models the installed compiler's amd64 behaviour (DESIGN 2.1), which the
// probe in the conformance test re-measures.
func (e *FnEnc) floatToInt(v string, fs string, to types.Type) string {
	ts := e.R.sortOf(to)
	m := bitsOfSort(ts)
	x := v
	if fs == "Float32" {
		x = fmt.Sprintf("((_ to_fp 11 53) RNE %s)", v)
	}
	two63 := fpLit(9223372036854775808.0, "Float64")
	ntwo63 := fpLit(-9223372036854775808.0, "Float64")
	minInt := "#x8000000000000000"
	inRange64 := fmt.Sprintf("(and (fp.geq %s %s) (fp.lt %s %s))", x, ntwo63, x, two63)
	i64 := fmt.Sprintf("(ite %s ((_ fp.to_sbv 64) RTZ %s) %s)", inRange64, x, minInt)
	if isSigned(to) {
		switch m {
		case 64:
			return i64
		case 32:
			// CVTTSD2SL: out of int32 range or NaN -> 0x80000000
			lo := fpLit(-2147483649.0, "Float64")
			hi := fpLit(2147483648.0, "Float64")
			return fmt.Sprintf("(ite (and (fp.gt %s %s) (fp.lt %s %s)) ((_ fp.to_sbv 32) RTZ %s) #x80000000)", x, lo, x, hi, x)
		default:
			// int16/int8: via 32-bit conversion then truncation
			lo := fpLit(-2147483649.0, "Float64")
			hi := fpLit(2147483648.0, "Float64")
			t32 := fmt.Sprintf("(ite (and (fp.gt %s %s) (fp.lt %s %s)) ((_ fp.to_sbv 32) RTZ %s) #x80000000)", x, lo, x, hi, x)
			return fmt.Sprintf("((_ extract %d 0) %s)", m-1, t32)
		}
	}
	switch m {
	case 64:
		two64 := fpLit(18446744073709551616.0, "Float64")
		return fmt.Sprintf("(ite (fp.lt %s %s) %s (ite (fp.lt %s %s) ((_ fp.to_ubv 64) RTZ %s) %s))", x, two63, i64, x, two64, x, minInt)
	default:
		return fmt.Sprintf("((_ extract %d 0) %s)", m-1, i64)
	}
}

func (f *frame) slice(x *ssa.Slice) {
	e := f.enc
	zero := bvLit(0, 64)
	lo, hi := zero, ""
	if x.Low != nil {
		lo = f.idx64(x.Low)
	}
	if x.High != nil {
		hi = f.idx64(x.High)
	}
	if x.Max != nil {
		bail("3-index slice")
	}
	switch t := x.X.Type().Underlying().(type) {
	case *types.Basic: // string
		s := f.scalar(x.X)
		if hi == "" {
			hi = fmt.Sprintf("(slen %s)", s)
		}
		cond := and(fmt.Sprintf("(bvule %s %s)", lo, hi), fmt.Sprintf("(bvule %s (slen %s))", hi, s))
		f.boundsOblige("safety.slice", x.Pos(), "slice", cond)
		f.defineVal(x, fmt.Sprintf("(ssub %s %s %s)", s, lo, hi))
		n := f.vals[x].term
		if f.enc.subOf == nil {
			f.enc.subOf = map[string][2]string{}
		}
		if base, ok := f.enc.subOf[s]; ok {
			f.enc.subOf[n] = [2]string{base[0], fmt.Sprintf("(bvadd %s %s)", base[1], lo)}
		} else {
			f.enc.subOf[n] = [2]string{s, lo}
		}
		f.assume(fmt.Sprintf("(= (slen %s) (bvsub %s %s))", n, hi, lo))
		f.assume(fmt.Sprintf("(=> (and (= %s %s) (= %s (slen %s))) (= %s %s))", lo, zero, hi, s, n, s))
	case *types.Slice:
		s := f.scalar(x.X)
		if hi == "" {
			hi = fmt.Sprintf("(sl-len %s)", s)
		}
		cond := and(fmt.Sprintf("(bvule %s %s)", lo, hi), fmt.Sprintf("(bvule %s (sl-cap %s))", hi, s))
		f.boundsOblige("safety.slice", x.Pos(), "slice", cond)
		f.defineVal(x, fmt.Sprintf("(mk-slice (sl-ref %s) (bvadd (sl-off %s) %s) (bvsub %s %s) (bvsub (sl-cap %s) %s))", s, s, lo, hi, lo, s, lo))
	case *types.Pointer: // pointer to array
		arr := t.Elem().Underlying().(*types.Array)
		sv := f.get(x.X)
		if sv.loc != nil {
			bail("slice of array by derived address")
		}
		n := bvLit(arr.Len(), 64)
		if hi == "" {
			hi = n
		}
		if x.Low != nil || x.High != nil {
			cond := and(fmt.Sprintf("(bvule %s %s)", lo, hi), fmt.Sprintf("(bvule %s %s)", hi, n))
			f.boundsOblige("safety.slice", x.Pos(), "slice", cond)
		}
		f.defineVal(x, fmt.Sprintf("(mk-slice %s %s (bvsub %s %s) (bvsub %s %s))", sv.term, lo, hi, lo, n, lo))
	default:
		bail("slice of %s", x.X.Type())
	}
	_ = e
}

func (f *frame) makeSlice(x *ssa.MakeSlice) {
	ln := f.idx64(x.Len)
	cp := f.idx64(x.Cap)
	text := f.enc.srcText(f.fn, x.Pos(), "call")
	limit := "#x0000ffffffffffff"
	cond := and(fmt.Sprintf("(bvsle #x0000000000000000 %s)", ln), fmt.Sprintf("(bvsle %s %s)", ln, cp), fmt.Sprintf("(bvsle %s %s)", cp, limit))
	f.oblige("safety.makeslice", text, cond, text, x.Pos())
	f.assume(cond)
	ref := f.newRef()
	f.locals = append(f.locals, localAlloc{ref: ref, t: types.NewArray(x.Type().Underlying().(*types.Slice).Elem(), 0)})
	f.defineVal(x, fmt.Sprintf("(mk-slice %s #x0000000000000000 %s %s)", ref, ln, cp))
	// zeroed contents
	e := f.enc
	el := x.Type().Underlying().(*types.Slice).Elem()
	key, sort := e.elemHeapKey(el)
	cur := e.heapGet(f.curHeap, key, sort)
	zero := e.constArray("(Array (_ BitVec 64) "+e.R.sortOf(el)+")", e.zeroValue(el))
	e.heapSet(f.curHeap, key, sort, fmt.Sprintf("(store %s %s %s)", cur, ref, zero))
}

// maps: M_<K>_<V> : Array Int (Array K V), MP_<K>_<V> : Array Int (Array K Bool)
func (e *FnEnc) mapHeapKeys(mt *types.Map) (vk, vs, pk, ps string) {
	ks, es := e.R.sortOf(mt.Key()), e.R.sortOf(mt.Elem())
	n := mangle(ks) + ".." + mangle(es)
	return "M_" + n, "(Array Int (Array " + ks + " " + es + "))", "MP_" + n, "(Array Int (Array " + ks + " Bool))"
}

func (f *frame) lookup(x *ssa.Lookup) {
	e := f.enc
	switch t := x.X.Type().Underlying().(type) {
	case *types.Map:
		m := f.scalar(x.X)
		k := f.scalar(x.Index)
		vk, vs, pk, ps := e.mapHeapKeys(t)
		present := fmt.Sprintf("(select (select %s %s) %s)", e.heapGet(f.curHeap, pk, ps), m, k)
		val := fmt.Sprintf("(select (select %s %s) %s)", e.heapGet(f.curHeap, vk, vs), m, k)
		okN := e.define(f.name(x)+"!ok", "Bool", and(not(fmt.Sprintf("(= %s 0)", m)), present))
		valN := e.define(f.name(x)+"!v", e.R.sortOf(t.Elem()), ite(okN, val, e.zeroValue(t.Elem())))
		f.assume(e.typeInv(valN, t.Elem(), 1))
		if x.CommaOk {
			f.vals[x] = SV{t: x.Type(), tuple: []SV{{t: t.Elem(), term: valN}, {t: types.Typ[types.Bool], term: okN}}}
		} else {
			f.set(x, valN)
		}
	case *types.Basic:
		s := f.scalar(x.X)
		i := f.idx64(x.Index)
		f.boundsOblige("safety.index", x.Pos(), "index", fmt.Sprintf("(bvult %s (slen %s))", i, s))
		f.defineVal(x, fmt.Sprintf("(sbyte %s %s)", s, i))
	default:
		bail("lookup on %s", x.X.Type())
	}
}

func (f *frame) mapUpdate(x *ssa.MapUpdate) {
	e := f.enc
	t := x.Map.Type().Underlying().(*types.Map)
	m := f.scalar(x.Map)
	k := f.scalar(x.Key)
	v := f.scalar(x.Value)
	f.escape(x.Value)
	text := e.srcText(f.fn, x.Pos(), "index")
	f.oblige("safety.nilmap", text, fmt.Sprintf("(not (= %s 0))", m), text, x.Pos())
	f.assume(fmt.Sprintf("(not (= %s 0))", m))
	vk, vs, pk, ps := e.mapHeapKeys(t)
	f.wrote("map update")
	cv := e.heapGet(f.curHeap, vk, vs)
	cp := e.heapGet(f.curHeap, pk, ps)
	e.heapSet(f.curHeap, vk, vs, fmt.Sprintf("(store %s %s (store (select %s %s) %s %s))", cv, m, cv, m, k, v))
	e.heapSet(f.curHeap, pk, ps, fmt.Sprintf("(store %s %s (store (select %s %s) %s true))", cp, m, cp, m, k))
}

func (f *frame) next(x *ssa.Next) {
	e := f.enc
	tup := x.Type().(*types.Tuple)
	var parts []SV
	for i := 0; i < tup.Len(); i++ {
		t := tup.At(i).Type()
		if b, ok := t.(*types.Basic); ok && b.Kind() == types.Invalid {
			parts = append(parts, SV{t: t, term: "0"})
			continue
		}
		n, inv := e.havoc(fmt.Sprintf("%s!%d", f.name(x), i), t)
		f.assume(inv)
		parts = append(parts, SV{t: t, term: n})
	}
	f.vals[x] = SV{t: x.Type(), tuple: parts}
	// range over a map: a produced entry is present in the map when it is produced and the
	// value is the one stored at that moment (Go spec, "For statements with range clause")
	if rg, ok := x.Iter.(*ssa.Range); ok && !x.IsString {
		if mt, ok := rg.X.Type().Underlying().(*types.Map); ok && parts[1].term != "0" {
			m := f.scalar(rg.X)
			vk, vs, pk, ps := e.mapHeapKeys(mt)
			present := fmt.Sprintf("(select (select %s %s) %s)", e.heapGet(f.curHeap, pk, ps), m, parts[1].term)
			fact := and(not(fmt.Sprintf("(= %s 0)", m)), present)
			if parts[2].term != "0" {
				val := fmt.Sprintf("(select (select %s %s) %s)", e.heapGet(f.curHeap, vk, vs), m, parts[1].term)
				fact = and(fact, fmt.Sprintf("(= %s %s)", parts[2].term, val))
			}
			f.assume(implies(parts[0].term, fact))
		}
	}
}

func (f *frame) selectInstr(x *ssa.Select) {
	e := f.enc
	tup := x.Type().(*types.Tuple)
	var parts []SV
	for i := 0; i < tup.Len(); i++ {
		n, inv := e.havoc(fmt.Sprintf("%s!%d", f.name(x), i), tup.At(i).Type())
		f.assume(inv)
		parts = append(parts, SV{t: tup.At(i).Type(), term: n})
	}
	f.vals[x] = SV{t: x.Type(), tuple: parts}
	e.note("select statement: nondeterministic choice of a ready case (channels not modelled)")
	// ghost event for "calls select(ch)" clauses: this path polls the channel
	for _, st := range x.States {
		f.noteCall("select", []SV{f.get(st.Chan)})
	}
}

func ghostDeferKey(k int) string { return fmt.Sprintf("ghost!defer!%d", k) }

func (f *frame) deferCall(x *ssa.Defer) {
	k := len(f.defers)
	f.defers = append(f.defers, deferRec{instr: x, pc: f.curPC})
	for _, a := range x.Call.Args {
		f.escape(a)
	}
	// ghost flag: this defer statement has been executed on the current path
	f.enc.R.heapDecl[ghostDeferKey(k)] = "Bool"
	f.curHeap[ghostDeferKey(k)] = "true"
}

func (f *frame) runDefers(x *ssa.RunDefers) {
	f.runDefersHere()
}

// runDefersHere runs the registered deferred calls (LIFO) on the current state; each one
// takes effect only if its ghost flag is set on this path.
func (f *frame) runDefersHere() {
	for i := len(f.defers) - 1; i >= 0; i-- {
		d := f.defers[i]
		flag, ok := f.curHeap[ghostDeferKey(i)]
		if !ok || flag == "false" {
			continue
		}
		before := f.curHeap.clone()
		pcBefore := f.curPC
		if flag != "true" {
			f.curPC = f.enc.define(f.enc.fresh(f.prefix+"pc"), "Bool", and(f.curPC, flag))
		}
		f.inDeferred = true
		f.applyCall(&d.instr.Call, nil, d.instr.Pos(), true)
		f.inDeferred = false
		f.curHeap[ghostDeferKey(i)] = "false"
		if flag != "true" {
			before[ghostDeferKey(i)] = "false"
			f.curHeap = f.mergeHeaps([]string{flag, not(flag)}, []Heap{f.curHeap, before})
			// either the defer statement was not executed on this path (state unchanged) or
			// the deferred call ran with the effects and postconditions just assumed
			f.curPC = f.enc.define(f.enc.fresh(f.prefix+"pc"), "Bool", or(and(pcBefore, not(flag)), f.curPC))
		}
	}
}

func (f *frame) panicInstr(x *ssa.Panic) {
	e := f.enc
	// classification: JavaScript exception (throw) or foreign panic
	kind := classifyPanicOperand(x.X)
	text := e.srcText(f.fn, x.Pos(), "call")
	if text == "" {
		text = "panic(" + x.X.Name() + ")"
	}
	f.throws = append(f.throws, throwRec{pc: f.curPC, kind: kind, text: text, pos: x.Pos(), heap: f.curHeap.clone()})
	f.recordExc(text, x.Pos(), f.curPC, f.curHeap.clone())
	if kind == "foreign" {
		f.oblige("foreign", text, "false", text, x.Pos())
	}
}

// classifyPanicOperand: "throw" if the operand's static type is one that catchPanic /
// tryCatchEvaluate turn into a JavaScript exception, else "foreign".
func classifyPanicOperand(v ssa.Value) string {
	if mi, ok := v.(*ssa.MakeInterface); ok {
		t := typeName(mi.X.Type())
		switch t {
		case "*otto.exception", "otto.Value", "*otto.Error", "otto.ottoError":
			return "throw"
		}
		return "foreign"
	}
	return "foreign"
}

func blockReaches(from, to *ssa.BasicBlock) bool {
	seen := map[int]bool{}
	stack := []*ssa.BasicBlock{from}
	for len(stack) > 0 {
		b := stack[len(stack)-1]
		stack = stack[:len(stack)-1]
		if seen[b.Index] {
			continue
		}
		seen[b.Index] = true
		if b == to {
			return true
		}
		stack = append(stack, b.Succs...)
	}
	return false
}
