package main

import (
	"fmt"
	"strings"
	"go/token"
	"go/types"

	"golang.org/x/tools/go/ssa"
)

// Package-level variables that are written only by their package initialiser are
// constants for every function verified here.  scanGlobals finds them (mechanically, on
// every run) and evaluates simple initialisers symbolically.

type globalInfo struct {
	storesOutsideInit int
	addrEscapes       bool
	initVal           ssa.Value // value stored by init, if there is exactly one store
	initStores        int
	fieldInit         map[int]ssa.Value // struct global: field -> the one value init stores into it
	fieldUnsafe       bool              // a field address is used for anything but those init stores / loads
}

func (E *Engine) scanGlobals() {
	E.globals = map[*ssa.Global]*globalInfo{}
	get := func(g *ssa.Global) *globalInfo {
		gi := E.globals[g]
		if gi == nil {
			gi = &globalInfo{}
			E.globals[g] = gi
		}
		return gi
	}
	for _, fn := range E.L.Funcs {
		isInit := fn.Signature.Recv() == nil && fn.Parent() == nil && (fn.Name() == "init" || strings.HasPrefix(fn.Name(), "init#"))
		for _, b := range fn.Blocks {
			for _, in := range b.Instrs {
				for _, op := range in.Operands(nil) {
					g, ok := (*op).(*ssa.Global)
					if !ok {
						continue
					}
					gi := get(g)
					switch x := in.(type) {
					case *ssa.UnOp:
						if x.Op == token.MUL {
							continue
						}
						gi.addrEscapes = true
					case *ssa.Store:
						if x.Addr == g && x.Val != g {
							if isInit && fn.Pkg == g.Pkg {
								gi.initStores++
								gi.initVal = x.Val
							} else {
								gi.storesOutsideInit++
							}
							continue
						}
						gi.addrEscapes = true
					case *ssa.DebugRef:
					case *ssa.FieldAddr:
						gi.addrEscapes = true
						// field-wise initialisation of a struct variable by init
						if x.X == g {
							if refs := x.Referrers(); refs != nil {
								for _, r := range *refs {
									switch y := r.(type) {
									case *ssa.Store:
										if y.Addr == x && isInit && fn.Pkg == g.Pkg {
											if gi.fieldInit == nil {
												gi.fieldInit = map[int]ssa.Value{}
											}
											if _, dup := gi.fieldInit[x.Field]; dup {
												gi.fieldUnsafe = true
											}
											gi.fieldInit[x.Field] = y.Val
										} else {
											gi.fieldUnsafe = true
										}
									case *ssa.UnOp:
										if y.Op != token.MUL {
											gi.fieldUnsafe = true
										}
									case *ssa.DebugRef:
									default:
										gi.fieldUnsafe = true
									}
								}
							}
						} else {
							gi.fieldUnsafe = true
						}
					case *ssa.IndexAddr:
						// element address: reads are fine, writes through it are
						// found by the frame scan; treat as escaping for constness
						gi.addrEscapes = true
						gi.fieldUnsafe = true
					default:
						gi.addrEscapes = true
						gi.fieldUnsafe = true
					}
				}
			}
		}
	}
}

// globalFieldFacts: for a struct variable that only its package initialiser writes, field
// by field with constants, the facts "field = constant" about the loaded value.
func (e *FnEnc) globalFieldFacts(g *ssa.Global, term string) []string {
	gi := e.E.globals[g]
	if gi == nil || gi.storesOutsideInit > 0 || gi.initStores > 0 || gi.fieldUnsafe || len(gi.fieldInit) == 0 {
		return nil
	}
	st, ok := g.Type().(*types.Pointer).Elem().Underlying().(*types.Struct)
	if !ok {
		return nil
	}
	sortS := e.R.sortOf(g.Type().(*types.Pointer).Elem())
	var out []string
	for i := 0; i < st.NumFields(); i++ {
		v, ok := gi.fieldInit[i]
		if !ok {
			continue
		}
		c, ok := e.constEval(v, 0)
		if !ok {
			continue
		}
		out = append(out, fmt.Sprintf("(= (%s.%s %s) %s)", sortS, st.Field(i).Name(), term, c))
	}
	return out
}

// globalConstTerm returns the SMT term of a global that is a constant scalar.
func (e *FnEnc) globalConstTerm(g *ssa.Global) (string, bool) {
	E := e.E
	gi := E.globals[g]
	if gi == nil || gi.storesOutsideInit > 0 || gi.addrEscapes || gi.initStores > 1 {
		return "", false
	}
	t := g.Type().(*types.Pointer).Elem()
	if gi.initStores == 0 {
		// never assigned: zero value (only for scalar sorts)
		switch t.Underlying().(type) {
		case *types.Basic:
			return e.zeroValue(t), true
		}
		return "", false
	}
	return e.constEval(gi.initVal, 0)
}

func (e *FnEnc) constEval(v ssa.Value, depth int) (string, bool) {
	if depth > 8 {
		return "", false
	}
	switch x := v.(type) {
	case *ssa.Const:
		if _, ok := x.Type().Underlying().(*types.Basic); ok {
			return e.constTerm(x).term, true
		}
	case *ssa.Call:
		callee := x.Call.StaticCallee()
		if callee == nil || callee.Pkg == nil {
			return "", false
		}
		switch callee.Pkg.Pkg.Path() + "." + callee.Name() {
		case "math.NaN":
			e.note("assume_lib math.NaN: NaN returns an IEEE 754 not-a-number value")
			return "(_ NaN 11 53)", true
		case "math.Inf":
			if c, ok := x.Call.Args[0].(*ssa.Const); ok {
				e.note("assume_lib math.Inf: Inf returns positive infinity if sign >= 0, negative infinity if sign < 0")
				if c.Int64() >= 0 {
					return "(_ +oo 11 53)", true
				}
				return "(_ -oo 11 53)", true
			}
		case "math.Float64frombits":
			if a, ok := e.constEval(x.Call.Args[0], depth+1); ok {
				return "((_ to_fp 11 53) " + a + ")", true
			}
		}
	case *ssa.MakeInterface:
		// a constant of a basic type boxed into an interface
		if _, isBasic := x.X.Type().Underlying().(*types.Basic); isBasic {
			if a, ok := e.constEval(x.X, depth+1); ok {
				return fmt.Sprintf("(%s %s)", e.R.ifaceCtor(x.X.Type()), a), true
			}
		}
	case *ssa.Convert:
		if a, ok := e.constEval(x.X, depth+1); ok {
			t, _ := e.convertTerm(a, x.X.Type(), x.Type(), nil)
			return t, true
		}
	}
	return "", false
}

// globalIsStable: the variable is assigned only by its package's init functions and its
// address never escapes, so every function sees the same value.
func (E *Engine) globalIsStable(g *ssa.Global) bool {
	gi := E.globals[g]
	return gi != nil && gi.storesOutsideInit == 0 && !gi.addrEscapes
}

// globalElemOnlyRead: no store to the variable or through an address derived from it outside
// its package initialiser (elements may be read by index anywhere).
func (E *Engine) globalElemOnlyRead(g *ssa.Global) bool {
	gi := E.globals[g]
	return gi != nil && gi.storesOutsideInit == 0 && !gi.fieldUnsafe
}

// globalNonNil: a pointer variable assigned exactly once, by its package initialiser, with the
// result of regexp.MustCompile (which returns a non-nil *Regexp or panics, aborting start-up)
// or with the address of a fresh allocation, is never nil afterwards.
func (E *Engine) globalNonNil(g *ssa.Global) bool {
	gi := E.globals[g]
	if gi == nil || !E.globalIsStable(g) || gi.initStores != 1 || gi.initVal == nil {
		return false
	}
	if _, ok := g.Type().(*types.Pointer).Elem().Underlying().(*types.Pointer); !ok {
		return false
	}
	switch x := gi.initVal.(type) {
	case *ssa.Alloc:
		return true
	case *ssa.Call:
		if c := x.Call.StaticCallee(); c != nil && c.Pkg != nil && c.Pkg.Pkg.Path() == "regexp" && c.Name() == "MustCompile" {
			return true
		}
	}
	return false
}

// stableGlobalTerm: the one fixed value of a stable package variable, with the non-nil fact
// where globalNonNil establishes it.
func (e *FnEnc) stableGlobalTerm(g *ssa.Global, key string, t types.Type) string {
	if e.stableGlobals == nil {
		e.stableGlobals = map[string]bool{}
	}
	e.stableGlobals[key] = true
	term := e.R.heapConst(key, e.R.sortOf(t))
	if e.E.globalNonNil(g) {
		fct := fmt.Sprintf("(> %s 0)", term)
		if e.globalFactSeen == nil {
			e.globalFactSeen = map[string]bool{}
		}
		if !e.globalFactSeen[fct] {
			e.globalFactSeen[fct] = true
			e.note("package variable " + g.Name() + " is assigned once, by its initialiser, from regexp.MustCompile or a fresh allocation: not nil, and distinct from every other such variable")
			e.decls = append(e.decls, "(assert "+fct+")")
			for _, other := range e.nonNilGlobals {
				e.decls = append(e.decls, fmt.Sprintf("(assert (not (= %s %s)))", term, other))
			}
			e.nonNilGlobals = append(e.nonNilGlobals, term)
		}
	}
	return term
}
