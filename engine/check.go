package main

import (
	"encoding/json"
	"flag"
	"fmt"
	"os"
	"path/filepath"
	"sort"
	"strconv"
	"strings"
	"time"
)

const verifDir = "/verif"

// at most this many counterexamples are replayed on the real code per run (each replay
// builds a driver, 2-4 s); further refuted obligations are reported without replay
const maxReplays = 4

type Baseline struct {
	Property    string   `json:"property"`
	Obligations []string `json:"obligations"`
}

type KnownFinding struct {
	ID          string   `json:"id"`
	Properties  []string `json:"properties"`
	Status      string   `json:"status"` // known | fixed
	Obligations []string `json:"obligations"`
	What        string   `json:"what"`
	JS          string   `json:"js,omitempty"`
	Expect      string   `json:"expect,omitempty"` // what ES5 / the property requires
	Observed    string   `json:"observed,omitempty"`
	Go          string   `json:"go,omitempty"` // name of a Go-level witness in the driver
	Commit      string   `json:"commit,omitempty"`
	Region      string   `json:"region,omitempty"`
}

type oblReport struct {
	Name    string  `json:"name"`
	Kind    string  `json:"kind"`
	Status  string  `json:"status"`
	Solver  string  `json:"solver"`
	Seconds float64 `json:"seconds"`
	Pos     string  `json:"pos,omitempty"`
	Text    string  `json:"text,omitempty"`
	SMTSize int     `json:"smt_bytes,omitempty"`
	Confirm string  `json:"confirmed_by,omitempty"`
}

func loadBaseline(p string) map[string]bool {
	b, err := os.ReadFile(filepath.Join(verifDir, "baseline", p+".json"))
	if err != nil {
		return nil
	}
	var bl Baseline
	if json.Unmarshal(b, &bl) != nil {
		return nil
	}
	m := map[string]bool{}
	for _, o := range bl.Obligations {
		m[o] = true
	}
	return m
}

func loadKnown() []KnownFinding {
	b, err := os.ReadFile(filepath.Join(verifDir, "known_findings.json"))
	if err != nil {
		return nil
	}
	var ks []KnownFinding
	json.Unmarshal(b, &ks)
	return ks
}

func hasProp(ps []string, p string) bool {
	for _, x := range ps {
		if x == p {
			return true
		}
	}
	return false
}

// funcsForProp: functions under contract with at least one obligation for property p.
func (E *Engine) funcsForProp(p string) []string {
	var keys []string
	for k, fc := range E.CS.Funcs {
		if fc.Inline && len(fc.Ensures) == 0 && !hasProp(fc.Props, p) {
			continue
		}
		if fc.Trusted {
			continue // contract assumed, body not verified (listed in the evidence)
		}
		rel := hasProp(fc.Props, p) || hasProp(fc.SafetyProps, p)
		if p == "C02" && !fc.NoSafety {
			rel = true
		}
		for _, cl := range fc.Ensures {
			rel = rel || hasProp(cl.Props, p)
		}
		for _, cl := range fc.Asserts {
			rel = rel || hasProp(cl.Props, p)
		}
		if rel {
			keys = append(keys, k)
		}
	}
	sort.Strings(keys)
	return keys
}

type checkRun struct {
	prop      string
	tier      string
	seed      int
	E         *Engine
	encs      map[string]*FnEnc
	encErr    map[string]string
	obls      []*Obl
	res       map[*Obl]SolveResult
	work      string
	writeBase bool
	replays   int
	vacuous   []string
	unreachable []string
	coverOK   int
	coverUnknown int
}

// coverObligations: vacuity guards.  For every function its precondition (with the type
// invariants) must be satisfiable and at least the first return must be reachable; in
// thorough every obligation's path condition must be satisfiable.
func (cr *checkRun) coverObligations() []*Obl {
	var cs []*Obl
	for k, enc := range cr.encs {
		if enc.Fn == nil {
			continue
		}
		cs = append(cs, &Obl{Name: k + "#cover.pre", Kind: "cover", Func: k, PC: enc.prePC, Cond: "false", NDecls: enc.preNDecls, enc: enc})
		if enc.top != nil && len(enc.top.rets) > 0 {
			var pcs []string
			for _, r := range enc.top.rets {
				pcs = append(pcs, r.pc)
			}
			cs = append(cs, &Obl{Name: k + "#cover.return", Kind: "cover", Func: k, PC: or(pcs...), Cond: "false", NDecls: len(enc.decls), enc: enc})
		}
	}
	if cr.tier == "thorough" {
		for _, o := range cr.obls {
			if o.enc.Fn == nil || o.PC == "true" {
				continue
			}
			cs = append(cs, &Obl{Name: o.Name + "#cover.reach", Kind: "cover", Func: o.Func, PC: o.PC, Cond: "false", NDecls: o.NDecls, enc: o.enc})
		}
	}
	sort.Slice(cs, func(i, j int) bool { return cs[i].Name < cs[j].Name })
	return cs
}

func cmdCheck(args []string) int {
	fs := flag.NewFlagSet("check", flag.ExitOnError)
	prop := fs.String("p", "", "property id")
	tier := fs.String("tier", "quick", "quick|thorough")
	writeBase := fs.Bool("write-baseline", false, "write /verif/baseline/<p>.json from this run")
	keep := fs.String("keep", "", "keep SMT files in this directory")
	fs.Parse(args)
	if *prop == "" {
		fmt.Fprintln(os.Stderr, "check: -p required")
		return 2
	}
	if t := os.Getenv("VERIF_TIER"); t != "" && *tier == "" {
		*tier = t
	}
	seed, _ := strconv.Atoi(os.Getenv("VERIF_SEED"))
	start := time.Now()
	E, err := newEngine()
	if err != nil {
		fmt.Fprintln(os.Stderr, "ENGINE ERROR:", err)
		return 2
	}
	cr := &checkRun{prop: *prop, tier: *tier, seed: seed, E: E, encs: map[string]*FnEnc{}, encErr: map[string]string{}, writeBase: *writeBase}
	work := *keep
	if work == "" {
		work, _ = os.MkdirTemp("", "gowp-"+*prop+"-")
		defer os.RemoveAll(work)
	} else {
		os.MkdirAll(work, 0o755)
	}
	cr.work = work
	return cr.run(start)
}

func (cr *checkRun) run(start time.Time) int {
	E := cr.E
	p := cr.prop
	keys := E.funcsForProp(p)
	var stale []string
	for _, k := range keys {
		enc, err := E.encodeFunc(k)
		if err != nil {
			cr.encErr[k] = err.Error()
			if strings.HasPrefix(err.Error(), "STALE") {
				stale = append(stale, k)
			}
			continue
		}
		enc.finalizeProps()
		cr.encs[k] = enc
		for _, o := range enc.obls {
			if hasProp(o.Props, p) {
				cr.obls = append(cr.obls, o)
			}
		}
	}
	// lemmas and sanity checks of the spec functions
	lemEnc, lemErr := E.encodeLemmas(p)
	if lemErr != nil {
		cr.encErr["lemmas"] = lemErr.Error()
	} else if lemEnc != nil {
		cr.encs["lemmas"] = lemEnc
		cr.obls = append(cr.obls, lemEnc.obls...)
	}
	timeout := 10 * time.Second
	cross := false
	if cr.tier == "thorough" {
		timeout = 60 * time.Second
		cross = true
	}
	for k, enc := range cr.encs {
		if fc := E.CS.Funcs[k]; fc != nil && fc.Timeout > 0 && enc != nil {
			_ = fc
		}
	}
	covers := cr.coverObligations()
	all := append(append([]*Obl{}, cr.obls...), covers...)
	cr.res = dischargeAll(all, cr.work, timeout, cross && false, 14)
	if cross {
		// thorough: every proof obligation confirmed by a second solver
		r2 := dischargeAll(cr.obls, filepath.Join(cr.work), timeout, true, 14)
		for o, r := range r2 {
			cr.res[o] = r
		}
	}
	for _, c := range covers {
		r := cr.res[c]
		switch r.Status {
		case "sat":
			cr.coverOK++
		case "unsat":
			if strings.HasSuffix(c.Name, "#cover.reach") {
				// an obligation whose program point is unreachable under the contract (dead
				// defensive code such as "default: panic(...)") holds trivially; reported, not fatal
				cr.unreachable = append(cr.unreachable, strings.TrimSuffix(c.Name, "#cover.reach"))
			} else {
				cr.vacuous = append(cr.vacuous, c.Name)
			}
		default:
			cr.coverUnknown++
		}
	}
	// retry non-definite answers once with a longer timeout (keeps quick runs stable)
	var retry []*Obl
	for _, o := range cr.obls {
		if r := cr.res[o]; r.Status == "timeout" || r.Status == "unknown" {
			retry = append(retry, o)
		}
	}
	if len(retry) > 0 && len(retry) <= 40 {
		sub := filepath.Join(cr.work, "retry")
		os.MkdirAll(sub, 0o755)
		r2 := dischargeAll(retry, sub, 6*timeout, false, 14)
		for o, r := range r2 {
			cr.res[o] = r
		}
	}
	// obligations that discharge on the baseline tree and still have no answer get a last,
	// long, lightly parallel attempt: a busy machine must not turn a slow proof into an alarm
	if base := loadBaseline(cr.prop); base != nil {
		var last []*Obl
		for _, o := range cr.obls {
			if r := cr.res[o]; (r.Status == "timeout" || r.Status == "unknown") && base[o.Name] {
				last = append(last, o)
			}
		}
		if len(last) > 0 && len(last) <= 12 {
			sub := filepath.Join(cr.work, "retry2")
			os.MkdirAll(sub, 0o755)
			r3 := dischargeAll(last, sub, 240*time.Second, false, 4)
			for o, r := range r3 {
				cr.res[o] = r
			}
		}
	}
	return cr.judge(start, stale)
}

func (cr *checkRun) judge(start time.Time, stale []string) int {
	p := cr.prop
	base := loadBaseline(p)
	known := loadKnown()
	knownObl := map[string]*KnownFinding{}
	for i := range known {
		k := &known[i]
		if k.Status == "known" && hasProp(k.Properties, p) {
			for _, o := range k.Obligations {
				knownObl[o] = k
			}
		}
	}
	var reports []oblReport
	discharged := 0
	byBackend := map[string]int{}
	solverSecs := 0.0
	var violations, undecided []string
	var violationLines []string
	names := map[string]bool{}
	var dischargedNames []string
	engineErr := false
	knownHit := map[string]bool{}
	nObl := 0
	for _, o := range cr.obls {
		r := cr.res[o]
		names[o.Name] = true
		rep := oblReport{Name: o.Name, Kind: o.Kind, Status: r.Status, Solver: r.Solver, Seconds: r.Seconds, Pos: o.Pos, Text: o.Text, Confirm: r.Confirm}
		if fi, err := os.Stat(r.File); err == nil {
			rep.SMTSize = int(fi.Size())
		}
		solverSecs += r.Seconds
		if kf := knownObl[o.Name]; kf != nil {
			// obligation listed as a known finding: not counted, handled below
			knownHit[kf.ID] = true
			rep.Status = "known-finding(" + r.Status + ")"
			reports = append(reports, rep)
			continue
		}
		nObl++
		switch r.Status {
		case "unsat":
			discharged++
			byBackend[r.Solver]++
			dischargedNames = append(dischargedNames, o.Name)
		case "error":
			engineErr = true
			fmt.Printf("ENGINE ERROR: %s: %s\n", o.Name, firstLines(r.Output, 2))
		case "sat":
			var rp replayResult
			if cr.replays < maxReplays {
				cr.replays++
				rp = cr.replay(o, r)
			} else {
				rp = replayResult{File: cr.writeReplay(o, r, nil, "not replayed: replay budget of this run used up"), Note: "replay budget used up"}
			}
			if rp.Reproduced {
				violations = append(violations, o.Name)
				violationLines = append(violationLines, fmt.Sprintf("VIOLATION property=%s replay=%s obligation=%s", p, rp.File, o.Name))
			} else if base != nil && base[o.Name] {
				violations = append(violations, o.Name)
				violationLines = append(violationLines, fmt.Sprintf("VIOLATION property=%s replay=%s obligation=%s no-failing-input-found", p, rp.File, o.Name))
			} else {
				undecided = append(undecided, o.Name+" (refuted by solver, not reproduced: "+rp.Note+")")
				nObl-- // never discharged and not claimed: listed, not counted
			}
		default: // unknown, timeout
			if base != nil && base[o.Name] {
				rp := cr.writeReplay(o, r, nil, "solver gave no answer for an obligation that discharges on the baseline tree")
				violations = append(violations, o.Name)
				violationLines = append(violationLines, fmt.Sprintf("VIOLATION property=%s replay=%s obligation=%s no-failing-input-found", p, rp, o.Name))
			} else {
				undecided = append(undecided, o.Name+" ("+r.Status+")")
				nObl--
			}
		}
		reports = append(reports, rep)
	}
	// baseline obligations that are no longer generated
	var missing []string
	if base != nil {
		for b := range base {
			if !names[b] {
				missing = append(missing, b)
			}
		}
		sort.Strings(missing)
	}
	missing = cr.pairRenamed(missing, &violations, &violationLines, &undecided)
	// a function whose obligations discharge on the baseline tree can no longer be brought
	// into verification-condition form (construct outside the subset, contract that no longer
	// matches the code): its obligations are not decided any more, which is reported
	var errKeys []string
	for k := range cr.encErr {
		errKeys = append(errKeys, k)
	}
	sort.Strings(errKeys)
	for _, k := range errKeys {
		had := false
		for b := range base {
			if strings.HasPrefix(b, k+"#") {
				had = true
			}
		}
		if !had || strings.HasPrefix(cr.encErr[k], "STALE") {
			continue
		}
		o := &Obl{Name: k + "#encode", Kind: "encode", Func: k, Text: "verification conditions of " + k + " can be generated", Props: []string{p}}
		rp := cr.writeReplay(o, SolveResult{Status: "error", Output: cr.encErr[k]}, nil, "the function no longer encodes: "+cr.encErr[k])
		violations = append(violations, o.Name)
		violationLines = append(violationLines, fmt.Sprintf("VIOLATION property=%s replay=%s obligation=%s no-failing-input-found", p, rp, o.Name))
	}
	// known findings: replay their witnesses
	var knownLines []string
	var knownNotes []string
	for i := range known {
		k := &known[i]
		if !hasProp(k.Properties, p) || k.Status != "known" {
			continue
		}
		still, note := cr.replayKnown(k)
		if still {
			knownLines = append(knownLines, fmt.Sprintf("KNOWN-FINDING: property=%s %s: %s", p, k.ID, k.What))
		} else {
			knownNotes = append(knownNotes, fmt.Sprintf("%s: finding no longer reproduces (%s)", k.ID, note))
		}
	}
	for _, l := range knownLines {
		fmt.Println(l)
	}
	for k, e := range cr.encErr {
		fmt.Printf("NOTE: %s: %s\n", k, e)
	}
	for _, u := range undecided {
		fmt.Printf("UNDECIDED: %s\n", u)
	}
	for _, m := range missing {
		fmt.Printf("NOTE: baseline obligation no longer generated: %s\n", m)
	}
	for _, l := range violationLines {
		fmt.Println(l)
	}
	if cr.writeBase {
		sort.Strings(dischargedNames)
		bl := Baseline{Property: p, Obligations: dischargedNames}
		b, _ := json.MarshalIndent(bl, "", " ")
		os.MkdirAll(filepath.Join(verifDir, "baseline"), 0o755)
		os.WriteFile(filepath.Join(verifDir, "baseline", p+".json"), append(b, '\n'), 0o644)
	}
	cr.writeEvidence(start, reports, nObl, discharged, byBackend, solverSecs, violations, undecided, stale, missing, knownLines, knownNotes)
	fmt.Printf("%s %s: %d obligations, %d discharged, %d undecided, %d violations, %d known findings, %.1fs\n",
		p, cr.tier, nObl, discharged, len(undecided), len(violations), len(knownLines), time.Since(start).Seconds())
	for _, v := range cr.unreachable {
		fmt.Printf("NOTE: unreachable under the contract (holds trivially): %s\n", v)
	}
	for _, v := range cr.vacuous {
		fmt.Printf("VACUOUS: %s (path condition unsatisfiable: contradictory requires/assumptions)\n", v)
		engineErr = true
	}
	if engineErr {
		return 2
	}
	if nObl == 0 {
		fmt.Println("ENGINE ERROR: no obligations generated for", p)
		return 2
	}
	if len(violations) > 0 {
		return 1
	}
	return 0
}

// pairRenamed: a baseline obligation that disappeared is paired with an unmatched new
// obligation of the same kind in the same function (rule 4 of DESIGN section 3).  If the
// new one does not discharge it counts as the old one failing.
func (cr *checkRun) pairRenamed(missing []string, violations, lines, undecided *[]string) []string {
	if len(missing) == 0 {
		return missing
	}
	base := loadBaseline(cr.prop)
	var rest []string
	used := map[string]bool{}
	for _, m := range missing {
		fn, kind := splitOblName(m)
		paired := false
		for _, o := range cr.obls {
			if base[o.Name] || used[o.Name] {
				continue
			}
			ofn, okind := splitOblName(o.Name)
			if ofn != fn || okind != kind {
				continue
			}
			used[o.Name] = true
			paired = true
			r := cr.res[o]
			if r.Status != "unsat" {
				// was counted as undecided above; upgrade to violation unless reproduced already
				already := false
				for _, v := range *violations {
					if v == o.Name {
						already = true
					}
				}
				if !already {
					rp := cr.writeReplay(o, r, nil, "obligation "+m+" of the baseline changed to "+o.Name+" and no longer discharges")
					*violations = append(*violations, o.Name)
					*lines = append(*lines, fmt.Sprintf("VIOLATION property=%s replay=%s obligation=%s no-failing-input-found", cr.prop, rp, o.Name))
					var nu []string
					for _, u := range *undecided {
						if !strings.HasPrefix(u, o.Name+" ") {
							nu = append(nu, u)
						}
					}
					*undecided = nu
				}
			}
			break
		}
		if !paired {
			rest = append(rest, m)
		}
	}
	return rest
}

func splitOblName(n string) (fn, kind string) {
	i := strings.Index(n, "#")
	if i < 0 {
		return n, ""
	}
	fn = n[:i]
	kind = n[i+1:]
	if j := strings.IndexAny(kind, "[~"); j >= 0 {
		kind = kind[:j]
	}
	// post.3 -> post ; inv.init@1.2 -> inv.init
	if j := strings.Index(kind, "@"); j >= 0 {
		kind = kind[:j]
	}
	if strings.HasPrefix(kind, "post.") || strings.HasPrefix(kind, "call.pre.") {
		kind = kind[:strings.LastIndex(kind, ".")]
	}
	return
}

func (cr *checkRun) writeEvidence(start time.Time, reports []oblReport, nObl, discharged int, byBackend map[string]int, solverSecs float64,
	violations, undecided, stale, missing, knownLines, knownNotes []string) {
	E := cr.E
	var fns []string
	assume := map[string]bool{}
	used := map[string]bool{}
	for k, enc := range cr.encs {
		if k == "lemmas" {
			continue
		}
		fns = append(fns, k)
		for _, n := range enc.notes {
			assume[n] = true
		}
		for c := range enc.usedContracts {
			used[c] = true
		}
	}
	sort.Strings(fns)
	var samples []oblReport
	for i, r := range reports {
		if i%maxInt(1, len(reports)/12) == 0 {
			samples = append(samples, r)
		}
	}
	var trusted []string
	for k := range used {
		if fc := E.CS.Funcs[k]; fc != nil && fc.Trusted {
			trusted = append(trusted, "trusted contract (body not verified): "+k)
		}
	}
	sort.Strings(trusted)
	trustedBase := append([]string{
		"gowp (this VC generator: go/ssa -> SMT-LIB), validated by the must-fail corpus and conformance replay",
		"golang.org/x/tools/go/ssa v0.29.0 and the go1.23.5 type checker",
		"z3 4.8.12, z3 5.1.0, cvc5 1.0.x (raced; cross-checked in thorough)",
		"platform linux/amd64: int is 64 bit; float->int conversions as measured for the installed compiler",
	}, trusted...)
	assumptions := sortedKeys(assume)
	for _, r := range E.CS.SMTRaw {
		assumptions = append(assumptions, "axiom (smtraw): "+r)
	}
	assumptions = append(assumptions,
		"callee contracts are assumed at call sites and proved separately in the property that owns them",
		"termination only where a decreases clause exists; otherwise partial correctness",
		"goroutines, channels, GC and out-of-memory are not modelled")
	slowest := append([]oblReport{}, reports...)
	sort.Slice(slowest, func(i, j int) bool { return slowest[i].Seconds > slowest[j].Seconds })
	if len(slowest) > 5 {
		slowest = slowest[:5]
	}
	encErrs := []string{}
	for k, e := range cr.encErr {
		encErrs = append(encErrs, k+": "+e)
	}
	sort.Strings(encErrs)
	ev := map[string]interface{}{
		"property_id": cr.prop,
		"tier":        cr.tier,
		"seed":        cr.seed,
		"level":       "proof",
		"coverage": map[string]interface{}{
			"obligations":              nObl,
			"discharged":               discharged,
			"checker_cmd":              fmt.Sprintf("/verif/bin/gowp check -p %s -tier %s", cr.prop, cr.tier),
			"trusted_base":             trustedBase,
			"functions_under_contract": fns,
			"callee_contracts_used":    sortedKeys(used),
			"discharged_by_backend":    byBackend,
			"solver_seconds":           solverSecs,
			"samples":                  samples,
			"slowest":                  slowest,
			"undecided":                nonNil(undecided),
			"stale_contracts":          nonNil(stale),
			"not_encoded":              encErrs,
			"baseline_missing":         nonNil(missing),
			"known_findings":           nonNil(knownLines),
			"known_findings_notes":     nonNil(knownNotes),
			"violating_obligations":    nonNil(violations),
			"bounded":                  []string{},
			"vacuity_covers_sat":       cr.coverOK,
			"vacuity_covers_unknown":   cr.coverUnknown,
			"vacuous":                  nonNil(cr.vacuous),
			"unreachable_under_contract": nonNil(cr.unreachable),
		},
		"assumptions": assumptions,
		"wall_s":      time.Since(start).Seconds(),
		"violations":  len(violations),
	}
	b, _ := json.MarshalIndent(ev, "", " ")
	evDir := filepath.Join(verifDir, "evidence")
	if d := os.Getenv("GOWP_EVIDENCE_DIR"); d != "" {
		evDir = d
	}
	os.MkdirAll(evDir, 0o755)
	os.WriteFile(filepath.Join(evDir, cr.prop+".json"), append(b, '\n'), 0o644)
}

func maxInt(a, b int) int {
	if a > b {
		return a
	}
	return b
}

// encodeLemmas: lemma and sanity formulas (closed; no function body).
func (E *Engine) encodeLemmas(p string) (enc *FnEnc, err error) {
	var ls []*Lemma
	for _, l := range E.CS.Lemmas {
		if hasProp(l.Props, p) {
			ls = append(ls, l)
		}
	}
	hasTable := false
	for _, tf := range E.CS.Tables {
		if hasProp(tf.Props, p) {
			hasTable = true
		}
	}
	for _, sf := range E.CS.StableFields {
		if hasProp(sf.Props, p) {
			hasTable = true
		}
	}
	for _, gr := range E.CS.GlobalsRO {
		if hasProp(gr.Props, p) {
			hasTable = true
		}
	}
	for _, b := range E.CS.Builtins {
		if hasProp(b.Props, p) {
			hasTable = true
		}
	}
	for _, ia := range E.CS.InitArgs {
		if hasProp(ia.Props, p) {
			hasTable = true
		}
	}
	for _, sl := range E.CS.Slots {
		if hasProp(sl.Props, p) {
			hasTable = true
		}
	}
	if len(ls) == 0 && !hasTable {
		return nil, nil
	}
	enc = &FnEnc{E: E, Key: "lemmas", C: &FuncContract{Key: "lemmas"}, R: newTypeReg(), usedContracts: map[string]bool{}}
	defer func() {
		if r := recover(); r != nil {
			switch x := r.(type) {
			case unsupported:
				err = fmt.Errorf("out of subset: %s", x.msg)
			case contractErr:
				err = fmt.Errorf("contract error: %s", x.msg)
			default:
				panic(r)
			}
		}
	}()
	f := &frame{enc: enc, vals: nil}
	f.curPC = "true"
	f.curHeap = Heap{}
	for _, l := range ls {
		ctx := &evalCtx{f: f, pkg: E.typesPkg(l.Pkg), bind: map[string]SV{}, heap: f.curHeap, what: l.Kind + " " + l.Name}
		c := ctx.evalBoolText(l.Text)
		o := &Obl{Name: lemmaName(l), Kind: l.Kind, Func: "lemmas", Props: l.Props, PC: "true", Cond: c,
			NDecls: len(enc.decls), Pos: fmt.Sprintf("%s:%d", strings.TrimPrefix(l.File, repoDir+"/"), l.Line), Text: l.Text, enc: enc}
		enc.obls = append(enc.obls, o)
	}
	E.tableObligations(p, enc)
	E.stableObligations(p, enc)
	E.slotObligations(p, enc)
	E.builtinObligations(p, enc)
	E.initArgObligations(p, enc)
	E.confinementObligations(p, enc)
	E.globalsObligations(p, enc)
	return enc, nil
}

func lemmaName(l *Lemma) string {
	if l.Kind == "sanity" {
		return l.Pkg + "#" + l.Name
	}
	return l.Pkg + "#lemma." + l.Name
}

func nonNil(s []string) []string {
	if s == nil {
		return []string{}
	}
	return s
}
