package main

import (
	"fmt"
	"go/ast"
	"go/constant"
	"go/token"
	"go/types"
	"sort"
	"strconv"
	"strings"
)

// C14: the postcondition of (*runtime).newContext is a ground table.  newContext is one
// input-free sequence of assignments of composite literals (generated code); its effect is
// computed here by evaluating those literals over the typed AST of the real source on
// every run (constants through go/types), and every "builtin" clause of the contract file
// becomes one ground obligation about the result.  This is the degenerate, input-free use
// of the technique: the obligations are closed formulas decided by evaluation.

type bObj struct {
	class, proto string // [[Class]] constant text, prototype as well-known name
	props        map[string]*bProp
	order        []string
	call, fnName string // nativeFunctionObject payload
	pos          token.Pos
}

type bProp struct {
	mode int64
	kind string // object | number | string | boolean | undefined | other
	ref  string // well-known object name when the value is rt.global.X / rt.globalObject
	obj  *bObj  // inline object literal
	text string // constant text for primitives
}

type BuiltinSpec struct {
	Owner, Key string
	Args       map[string]string
	Kind       string // fn | const | ref | obj
	Props      []string
	File       string
	Line       int
}

type bTable struct {
	objs map[string]*bObj // "Object", "ObjectPrototype", ..., "globalObject"
	errs []string
}

func (E *Engine) evalNewContext() *bTable {
	t := &bTable{objs: map[string]*bObj{}}
	var info *types.Info
	var fd *ast.FuncDecl
	for _, p := range E.L.Pkgs {
		if p.Name != "otto" {
			continue
		}
		for _, f := range p.Syntax {
			for _, d := range f.Decls {
				if x, ok := d.(*ast.FuncDecl); ok && x.Name.Name == "newContext" && x.Recv != nil {
					fd, info = x, p.TypesInfo
				}
			}
		}
	}
	if fd == nil {
		t.errs = append(t.errs, "newContext not found")
		return t
	}
	ev := &bEval{info: info, t: t}
	for _, st := range fd.Body.List {
		as, ok := st.(*ast.AssignStmt)
		if !ok || len(as.Lhs) != 1 || len(as.Rhs) != 1 {
			t.errs = append(t.errs, fmt.Sprintf("statement at %v is not a single assignment", st.Pos()))
			continue
		}
		ev.assign(as.Lhs[0], as.Rhs[0])
	}
	return t
}

type bEval struct {
	info *types.Info
	t    *bTable
}

func (ev *bEval) errf(format string, a ...interface{}) {
	ev.t.errs = append(ev.t.errs, fmt.Sprintf(format, a...))
}

// wellKnown: rt.global.X -> "X", rt.globalObject -> "globalObject"
func wellKnown(e ast.Expr) (string, bool) {
	s, ok := e.(*ast.SelectorExpr)
	if !ok {
		return "", false
	}
	if id, ok := s.X.(*ast.Ident); ok && id.Name == "rt" && s.Sel.Name == "globalObject" {
		return "globalObject", true
	}
	if in, ok := s.X.(*ast.SelectorExpr); ok {
		if id, ok := in.X.(*ast.Ident); ok && id.Name == "rt" && in.Sel.Name == "global" {
			return s.Sel.Name, true
		}
	}
	return "", false
}

func (ev *bEval) obj(name string) *bObj {
	o := ev.t.objs[name]
	if o == nil {
		o = &bObj{props: map[string]*bProp{}}
		ev.t.objs[name] = o
	}
	return o
}

func (ev *bEval) assign(lhs, rhs ast.Expr) {
	// rt.global.X = &object{...}
	if name, ok := wellKnown(lhs); ok {
		o := ev.objectLit(rhs)
		if o == nil {
			ev.errf("unsupported initialiser of %s", name)
			return
		}
		ev.t.objs[name] = o
		return
	}
	// rt.global.X.property = map..., rt.global.X.propertyOrder = []string{...}
	if s, ok := lhs.(*ast.SelectorExpr); ok {
		if name, ok := wellKnown(s.X); ok {
			switch s.Sel.Name {
			case "property":
				ev.obj(name).props = ev.propertyMap(rhs)
			case "propertyOrder":
				ev.obj(name).order = ev.stringList(rhs)
			default:
				ev.errf("assignment to field %s of %s not modelled", s.Sel.Name, name)
			}
			return
		}
	}
	// rt.global.X.property[key] = property{...}
	if ix, ok := lhs.(*ast.IndexExpr); ok {
		if s, ok := ix.X.(*ast.SelectorExpr); ok && s.Sel.Name == "property" {
			if name, ok := wellKnown(s.X); ok {
				key, ok := ev.constString(ix.Index)
				if !ok {
					ev.errf("non-constant key in assignment to %s.property[...]", name)
					return
				}
				ev.obj(name).props[key] = ev.property(rhs)
				return
			}
		}
	}
	ev.errf("statement at %v not modelled", lhs.Pos())
}

func (ev *bEval) constString(e ast.Expr) (string, bool) {
	if tv, ok := ev.info.Types[e]; ok && tv.Value != nil && tv.Value.Kind() == constant.String {
		return constant.StringVal(tv.Value), true
	}
	return "", false
}

func (ev *bEval) constInt(e ast.Expr) (int64, bool) {
	if tv, ok := ev.info.Types[e]; ok && tv.Value != nil {
		if v, ok := constant.Int64Val(constant.ToInt(tv.Value)); ok {
			return v, true
		}
	}
	return 0, false
}

func compositeOf(e ast.Expr) *ast.CompositeLit {
	if u, ok := e.(*ast.UnaryExpr); ok && u.Op == token.AND {
		e = u.X
	}
	cl, _ := e.(*ast.CompositeLit)
	return cl
}

func (ev *bEval) objectLit(e ast.Expr) *bObj {
	cl := compositeOf(e)
	if cl == nil {
		return nil
	}
	o := &bObj{props: map[string]*bProp{}, pos: cl.Pos()}
	for _, el := range cl.Elts {
		kv, ok := el.(*ast.KeyValueExpr)
		if !ok {
			ev.errf("positional field in object literal at %v", el.Pos())
			continue
		}
		field := kv.Key.(*ast.Ident).Name
		switch field {
		case "class":
			o.class, _ = ev.constString(kv.Value)
		case "prototype":
			if id, ok := kv.Value.(*ast.Ident); ok && id.Name == "nil" {
				o.proto = "nil"
			} else if n, ok := wellKnown(kv.Value); ok {
				o.proto = n
			} else {
				ev.errf("prototype at %v is not a well-known object", kv.Value.Pos())
			}
		case "property":
			o.props = ev.propertyMap(kv.Value)
		case "propertyOrder":
			o.order = ev.stringList(kv.Value)
		case "value":
			if vcl := compositeOf(kv.Value); vcl != nil {
				if id, ok := vcl.Type.(*ast.Ident); ok && id.Name == "nativeFunctionObject" {
					for _, fe := range vcl.Elts {
						fkv := fe.(*ast.KeyValueExpr)
						switch fkv.Key.(*ast.Ident).Name {
						case "name":
							o.fnName, _ = ev.constString(fkv.Value)
						case "call":
							if id, ok := fkv.Value.(*ast.Ident); ok {
								o.call = id.Name
							}
						}
					}
				}
			}
		}
	}
	return o
}

func (ev *bEval) propertyMap(e ast.Expr) map[string]*bProp {
	out := map[string]*bProp{}
	cl := compositeOf(e)
	if cl == nil {
		ev.errf("property table at %v is not a literal", e.Pos())
		return out
	}
	for _, el := range cl.Elts {
		kv := el.(*ast.KeyValueExpr)
		key, ok := ev.constString(kv.Key)
		if !ok {
			ev.errf("non-constant property key at %v", kv.Key.Pos())
			continue
		}
		if _, dup := out[key]; dup {
			ev.errf("duplicate property key %q", key)
		}
		out[key] = ev.property(kv.Value)
	}
	return out
}

func (ev *bEval) stringList(e ast.Expr) []string {
	cl := compositeOf(e)
	var out []string
	if cl == nil {
		return out
	}
	for _, el := range cl.Elts {
		s, ok := ev.constString(el)
		if !ok {
			ev.errf("non-constant name in propertyOrder at %v", el.Pos())
		}
		out = append(out, s)
	}
	return out
}

func (ev *bEval) property(e ast.Expr) *bProp {
	p := &bProp{kind: "other", mode: -1}
	cl := compositeOf(e)
	if cl == nil {
		ev.errf("property at %v is not a literal", e.Pos())
		return p
	}
	for _, el := range cl.Elts {
		kv, ok := el.(*ast.KeyValueExpr)
		if !ok {
			continue
		}
		switch kv.Key.(*ast.Ident).Name {
		case "mode":
			if m, ok := ev.constInt(kv.Value); ok {
				p.mode = m
			}
		case "value":
			vcl := compositeOf(kv.Value)
			if vcl == nil {
				continue
			}
			var kind string
			var val ast.Expr
			for _, ve := range vcl.Elts {
				vkv, ok := ve.(*ast.KeyValueExpr)
				if !ok {
					continue
				}
				switch vkv.Key.(*ast.Ident).Name {
				case "kind":
					if id, ok := vkv.Value.(*ast.Ident); ok {
						kind = id.Name
					}
				case "value":
					val = vkv.Value
				}
			}
			switch kind {
			case "valueObject":
				p.kind = "object"
				if n, ok := wellKnown(val); ok {
					p.ref = n
				} else if o := ev.objectLit(val); o != nil {
					p.obj = o
				}
			case "valueNumber":
				p.kind = "number"
				if tv, ok := ev.info.Types[val]; ok && tv.Value != nil {
					p.text = tv.Value.ExactString()
				} else if val != nil {
					p.text = types.ExprString(val)
				}
			case "valueString":
				p.kind = "string"
				p.text, _ = ev.constString(val)
			case "valueBoolean":
				p.kind = "boolean"
			case "", "valueUndefined":
				p.kind = "undefined"
			}
		}
	}
	return p
}

// ---------------------------------------------------------------------------
// specification side
// ---------------------------------------------------------------------------

// owner name in the contract file -> well-known object
func ownerObject(owner string) string {
	switch owner {
	case "global":
		return "globalObject"
	}
	if strings.HasSuffix(owner, ".prototype") {
		return strings.TrimSuffix(owner, ".prototype") + "Prototype"
	}
	return owner
}

func capitalize(s string) string {
	if s == "" {
		return s
	}
	return strings.ToUpper(s[:1]) + s[1:]
}

// defaultCall: the Go function a built-in is bound to by the naming scheme of the
// generator: builtin<Owner><Name> (prototype methods drop ".prototype").
func defaultCall(owner, key string) string {
	o := strings.TrimSuffix(owner, ".prototype")
	if o == "global" {
		o = "Global"
	}
	return "builtin" + o + capitalize(key)
}

func parseBuiltinSpec(rest string, props []string, file string, line int) (*BuiltinSpec, error) {
	fs := strings.Fields(rest)
	if len(fs) < 3 {
		return nil, fmt.Errorf("builtin: want <owner> <key> <kind> [k=v ...]")
	}
	b := &BuiltinSpec{Owner: fs[0], Key: fs[1], Kind: fs[2], Args: map[string]string{}, Props: props, File: file, Line: line}
	for _, kv := range fs[3:] {
		i := strings.Index(kv, "=")
		if i < 0 {
			return nil, fmt.Errorf("builtin: bad argument %q", kv)
		}
		b.Args[kv[:i]] = kv[i+1:]
	}
	return b, nil
}

func (E *Engine) builtinObligations(p string, enc *FnEnc) {
	var specs []*BuiltinSpec
	for _, b := range E.CS.Builtins {
		if hasProp(b.Props, p) {
			specs = append(specs, b)
		}
	}
	if len(specs) == 0 {
		return
	}
	t := E.evalNewContext()
	add := func(b *BuiltinSpec, what string, ok bool, detail string) {
		cond := "false"
		if ok {
			cond = "true"
		}
		text := fmt.Sprintf("%s.%s: %s", b.Owner, b.Key, what)
		if !ok {
			text += " -- but " + detail
		}
		name := fmt.Sprintf("otto#builtin[%s.%s].%s", b.Owner, b.Key, strings.Fields(what)[0])
		o := &Obl{Name: name, Kind: "builtin", Func: "lemmas", Props: b.Props, PC: "true", Cond: cond, NDecls: 0,
			Pos: fmt.Sprintf("%s:%d", strings.TrimPrefix(b.File, repoDir+"/"), b.Line), Text: text, enc: enc, Trivial: ok}
		enc.obls = append(enc.obls, o)
	}
	// the evaluation itself must have understood every statement
	{
		b := &BuiltinSpec{Owner: "newContext", Key: "model", Props: []string{p}, File: repoDir + "/inline.go", Line: 1}
		add(b, "evaluated every statement of newContext is a modelled assignment of literals", len(t.errs) == 0, strings.Join(t.errs, "; "))
	}
	sort.SliceStable(specs, func(i, j int) bool { return specs[i].Line < specs[j].Line })
	for _, b := range specs {
		own := t.objs[ownerObject(b.Owner)]
		if b.Kind == "obj" {
			// builtinobj: class and prototype link of the owner itself
			if own == nil {
				add(b, "exists", false, "no such well-known object")
				continue
			}
			add(b, "exists", true, "")
			if c, ok := b.Args["class"]; ok {
				add(b, "class is "+c, own.class == c, "class is "+own.class)
			}
			if pr, ok := b.Args["proto"]; ok {
				want := ownerObject(pr)
				add(b, "prototype is "+pr, own.proto == want, "prototype is "+own.proto)
			}
			continue
		}
		if own == nil {
			add(b, "exists", false, "owner "+b.Owner+" is not built by newContext")
			continue
		}
		pr := own.props[b.Key]
		if pr == nil {
			add(b, "exists", false, "property is missing")
			continue
		}
		add(b, "exists", true, "")
		inOrder := false
		for _, k := range own.order {
			if k == b.Key {
				inOrder = true
			}
		}
		add(b, "listed in the owner's property order", inOrder, "it is not in propertyOrder")
		wantMode := int64(-2)
		if m, ok := b.Args["mode"]; ok {
			v, err := strconv.ParseInt(m, 0, 64)
			if err == nil {
				wantMode = v
			}
		}
		switch b.Kind {
		case "fn":
			if wantMode == -2 {
				wantMode = 0o101
			}
			add(b, fmt.Sprintf("mode is %#o (writable, not enumerable, configurable)", wantMode), pr.mode == wantMode, fmt.Sprintf("mode is %#o", pr.mode))
			fo := pr.obj
			if fo == nil && pr.ref != "" {
				fo = t.objs[pr.ref]
			}
			if pr.kind != "object" || fo == nil {
				add(b, "callable value is a function object", false, "value kind is "+pr.kind)
				continue
			}
			add(b, "fnclass value is a function object of class Function", fo.class == "Function", "class is "+fo.class)
			add(b, "fnproto prototype link of the function is Function.prototype", fo.proto == "FunctionPrototype", "prototype is "+fo.proto)
			wantLen := b.Args["len"]
			lp := fo.props["length"]
			add(b, "length is "+wantLen, lp != nil && lp.kind == "number" && lp.text == wantLen, func() string {
				if lp == nil {
					return "no length property"
				}
				return "length is " + lp.text
			}())
			add(b, "lengthattrs of length are 0 (not writable, not enumerable, not configurable)", lp != nil && lp.mode == 0, func() string {
				if lp == nil {
					return "no length property"
				}
				return fmt.Sprintf("mode is %#o", lp.mode)
			}())
			if pr.obj != nil {
				// inline native function: bound to the Go function of that name
				want := defaultCall(b.Owner, b.Key)
				if c, ok := b.Args["call"]; ok {
					want = c
				}
				add(b, "bound to "+want, fo.call == want, "bound to "+fo.call)
				add(b, "name is "+b.Key, fo.fnName == b.Key, "name is "+fo.fnName)
			} else if r, ok := b.Args["ref"]; ok {
				add(b, "ref is the well-known object "+r, pr.ref == ownerObject(r), "it is "+pr.ref)
			}
		case "const":
			if wantMode == -2 {
				wantMode = 0
			}
			add(b, fmt.Sprintf("mode is %#o (not writable, not enumerable, not configurable)", wantMode), pr.mode == wantMode, fmt.Sprintf("mode is %#o", pr.mode))
			if k, ok := b.Args["kind"]; ok {
				add(b, "kind is "+k, pr.kind == k, "kind is "+pr.kind)
			}
			if v, ok := b.Args["value"]; ok {
				add(b, "value is "+v, pr.text == v, "value is "+pr.text)
			}
		case "ref":
			if wantMode == -2 {
				wantMode = 0o101
			}
			add(b, fmt.Sprintf("mode is %#o", wantMode), pr.mode == wantMode, fmt.Sprintf("mode is %#o", pr.mode))
			add(b, "ref is the well-known object "+b.Args["ref"], pr.kind == "object" && pr.ref == ownerObject(b.Args["ref"]), "it is "+pr.kind+" "+pr.ref)
		}
	}
}
