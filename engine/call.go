package main

import (
	"path/filepath"
	"go/ast"
	"fmt"
	"go/token"
	"go/types"
	"sort"
	"strings"

	"golang.org/x/tools/go/ssa"
)

type deferRec struct {
	instr *ssa.Defer
	pc    string
}

type throwRec struct {
	pc   string
	kind string // throw | foreign | call
	text string
	pos  token.Pos
	heap Heap
	callee string
	cond string // condition under which the callee may throw (from its throws clauses)
}

func (f *frame) call(x *ssa.Call) {
	res := f.applyCall(&x.Call, x, x.Pos(), false)
	if x.Type() != nil {
		if tup, ok := x.Type().(*types.Tuple); ok && tup.Len() == 0 {
			return
		}
	}
	f.vals[x] = res
}

func (f *frame) resultHavoc(base string, t types.Type) SV {
	e := f.enc
	if tup, ok := t.(*types.Tuple); ok {
		var parts []SV
		for i := 0; i < tup.Len(); i++ {
			n, inv := e.havoc(fmt.Sprintf("%s!r%d", base, i), tup.At(i).Type())
			f.assume(inv)
			parts = append(parts, SV{t: tup.At(i).Type(), term: n})
		}
		return SV{t: t, tuple: parts}
	}
	n, inv := e.havoc(base, t)
	f.assume(inv)
	return SV{t: t, term: n}
}

func sigResults(sig *types.Signature) types.Type {
	switch sig.Results().Len() {
	case 0:
		return sig.Results()
	case 1:
		return sig.Results().At(0).Type()
	}
	return sig.Results()
}

// applyCall encodes one call.  v is the SSA value of the call (nil for deferred calls).
func (f *frame) applyCall(c *ssa.CallCommon, v ssa.Value, pos token.Pos, deferred bool) (result SV) {
	e := f.enc
	base := f.prefix + "call"
	if v != nil {
		base = f.name(v)
	} else {
		base = e.fresh(f.prefix + "dcall")
	}
	resT := sigResults(c.Signature())

	if b, ok := c.Value.(*ssa.Builtin); ok {
		return f.builtin(b, c, base, resT, pos)
	}
	callee := c.StaticCallee()
	if callee == nil {
		// dynamic call: interface method or function value
		if c.IsInvoke() {
			recv := f.get(c.Value)
			text := e.srcText(f.fn, pos, "call")
			f.oblige("safety.nil", text, fmt.Sprintf("(not (= %s I_nil))", recv.term), text, pos)
			f.assume(fmt.Sprintf("(not (= %s I_nil))", recv.term))
			if r, ok := f.invokeModel(c, base, resT); ok {
				return r
			}
			e.note(fmt.Sprintf("dynamic call %s.%s: result and heap havocked", typeName(c.Value.Type()), c.Method.Name()))
		} else {
			fv := f.get(c.Value)
			if fv.loc == nil {
				text := e.srcText(f.fn, pos, "call")
				f.oblige("safety.nilfunc", text, fmt.Sprintf("(not (= %s 0))", fv.term), text, pos)
				f.assume(fmt.Sprintf("(not (= %s 0))", fv.term))
			}
			e.note("call of function value: result and heap havocked")
		}
		for _, a := range c.Args {
			f.escape(a)
		}
		f.recordCallThrow("dynamic", pos)
		slot := f.slotContract(c)
		var sargs []SV
		if c.IsInvoke() {
			sargs = append(sargs, f.get(c.Value))
		}
		for _, a := range c.Args {
			sargs = append(sargs, f.get(a))
		}
		if slot != nil {
			f.slotRequires(slot, sargs, pos)
		}
		// a call of a function-typed parameter is visible to at_call / calls clauses as
		// pkg.$param (the callback protocol of enumerate-style functions)
		if !c.IsInvoke() && f == e.top {
			if prm, ok := c.Value.(*ssa.Parameter); ok && f.fn.Pkg != nil {
				pkey := f.fn.Pkg.Pkg.Name() + ".$" + prm.Name()
				f.atCallObligations(pkey, sargs, pos)
			}
		}
		// interface method calls are visible to at_call / calls clauses as pkg.Iface.method
		var invMatches map[int]string
		if c.IsInvoke() {
			if n, ok := c.Value.Type().(*types.Named); ok && n.Obj().Pkg() != nil {
				ikey := n.Obj().Pkg().Name() + "." + n.Obj().Name() + "." + c.Method.Name()
				f.atCallObligations(ikey, sargs, pos)
				invMatches = f.noteCall(ikey, sargs)
			}
		}
		if len(invMatches) > 0 {
			defer func() { f.noteCallResult(invMatches, result) }()
		}
		oldHeap := f.curHeap.clone()
		if f.wantUnwind() && !f.inDeferred {
			f.excFromCall("dynamic call", pos, func() {
				f.havocDynamic(nil)
				if slot != nil {
					f.assumeSlot(slot, slot.Unwind, sargs, SV{}, oldHeap)
				}
			})
		}
		f.havocDynamic(nil)
		res := f.resultHavoc(base, resT)
		if slot != nil {
			e.note("slot contract " + slot.Key + " used at the dynamic call; that every function reachable through the slot satisfies it is the slotimpl obligation (functions marked implements are proved against it) when the slot carries props, otherwise an assumption")
			f.assumeSlot(slot, slot.Ensures, sargs, res, oldHeap)
		}
		return res
	}
	key := funcKey(callee)
	if callee.Pkg == nil || e.E.L.SSA[callee.Pkg.Pkg.Name()] != callee.Pkg {
		// external (library) function
		return f.libCall(callee, c, base, resT, pos)
	}
	args := make([]SV, len(c.Args))
	for i, a := range c.Args {
		args[i] = f.get(a)
	}
	f.atCallObligations(key, args, pos)
	matches := f.noteCall(key, args)
	if len(matches) > 0 {
		defer func() { f.noteCallResult(matches, result) }()
	}
	fc := e.E.CS.Funcs[key]
	if fc != nil && e.top != nil && e.top.contract != nil {
		for _, fg := range e.top.contract.Forget {
			if fg == key {
				// this proof does not need the callee's contract: effects by inferred write set
				e.note("callee contract not used here (abstract): " + key)
				fc = nil
			}
		}
	}
	if mc, ok := c.Value.(*ssa.MakeClosure); ok && fc == nil && e.depth < 6 && len(callee.Blocks) > 0 && len(callee.Blocks) <= 12 && !hasLoop(callee) {
		// direct call of a local closure: the body is inlined with its captured variables
		return f.inlineClosure(callee, mc, args, base, resT, pos)
	}
	if fc != nil && fc.Inline && callee != f.fn && e.depth < 6 && len(callee.Blocks) > 0 {
		return f.inlineCall(callee, fc, args, base, resT, pos)
	}
	if fc != nil {
		for _, a := range c.Args {
			f.escape(a) // references handed to a callee may be stored by it
		}
		return f.contractCall(callee, fc, args, base, resT, pos)
	}
	// no contract: havoc result and the callee's inferred write set
	for _, a := range c.Args {
		f.escape(a)
	}
	f.recordCallThrow(key, pos)
	w := e.E.writeSet(callee)
	if f.wantUnwind() && !f.inDeferred {
		f.excFromCall("call "+key, pos, func() { f.havocKeys(w) })
	}
	f.havocKeys(w)
	// interior addresses handed to the callee (&p.f, &s[i], &global) may be written through
	for i, a := range args {
		if a.loc != nil && a.loc.kind != locCell {
			if pt, ok := c.Args[i].Type().Underlying().(*types.Pointer); ok {
				n, inv := e.havoc(base+"!addr", pt.Elem())
				f.wrote("write through address argument")
				f.storeLoc(a.loc, n, f.curHeap)
				f.assume(inv)
			}
		}
	}
	e.note("callee without contract: " + key + " (result havocked, inferred write set havocked)")
	return f.resultHavoc(base, resT)
}

func (f *frame) havocKeys(w map[string]bool) {
	e := f.enc
	if w["*"] {
		f.havocAllHeap()
		return
	}
	if w["*dyn"] {
		f.havocDynamic(w)
		return
	}
	if len(w) == 0 {
		return
	}
	f.wrote("call with side effects")
	old := f.curHeap.clone()
	defer f.restoreLocals(old, w)
	var ks []string
	for k := range w {
		ks = append(ks, k)
	}
	sort.Strings(ks)
	for _, k := range ks {
		if e.E.stableKeys()[k] != nil {
			continue // stable field: never reassigned in existing objects
		}
		sortS, ok := e.R.heapDecl[k]
		if !ok {
			// not used so far in this query; if it is used later it must not equal the initial array
			e.pendingHavoc(f, k)
			continue
		}
		f.curHeap[k] = e.declare(e.fresh(k), sortS)
	}
}

// pendingHavoc marks key k as havocked in the current heap although its sort is not yet
// known (never touched in this query): install a placeholder that heapGet replaces.
func (e *FnEnc) pendingHavoc(f *frame, k string) {
	f.curHeap[k] = "?" + e.fresh(k)
}

func (f *frame) recordCallThrow(callee string, pos token.Pos) {
	f.throws = append(f.throws, throwRec{pc: f.curPC, kind: "call", pos: pos, heap: f.curHeap.clone(), callee: callee})
}

// ---------------------------------------------------------------------------
// contract application (modular call)
// ---------------------------------------------------------------------------

func (f *frame) calleeBind(callee *ssa.Function, args []SV) map[string]SV {
	bind := map[string]SV{}
	for i, p := range callee.Params {
		if i < len(args) {
			bind[p.Name()] = args[i]
		}
	}
	if fc := f.enc.E.CS.Funcs[funcKey(callee)]; fc != nil && fc.Implements != "" {
		for i := range callee.Params {
			if i < len(args) {
				bind[fmt.Sprintf("arg%d", i)] = args[i]
			}
		}
	}
	return bind
}

func resultNames(fn *ssa.Function) []string {
	var names []string
	res := fn.Signature.Results()
	for i := 0; i < res.Len(); i++ {
		names = append(names, res.At(i).Name())
	}
	return names
}

func bindResults(bind map[string]SV, fn *ssa.Function, res SV) {
	names := resultNames(fn)
	if res.tuple != nil {
		for i, r := range res.tuple {
			bind[fmt.Sprintf("result%d", i)] = r
			if names[i] != "" && names[i] != "_" {
				if _, exists := bind[names[i]]; !exists {
					bind[names[i]] = r
				}
			}
		}
		return
	}
	if len(names) == 1 {
		bind["result"] = res
		bind["result0"] = res
		if names[0] != "" && names[0] != "_" {
			if _, exists := bind[names[0]]; !exists {
				bind[names[0]] = res
			}
		}
	}
}

func (f *frame) contractCall(callee *ssa.Function, fc *FuncContract, args []SV, base string, resT types.Type, pos token.Pos) SV {
	e := f.enc
	key := fc.Key
	var addrArgs []*Loc
	var addrTypes []types.Type
	var arefs []string
	for i, a := range args {
		if a.loc != nil && a.loc.kind != locCell {
			// interior address: the contract cannot name its target; the callee may write it
			addrArgs = append(addrArgs, a.loc)
			addrTypes = append(addrTypes, callee.Params[i].Type().Underlying().(*types.Pointer).Elem())
			n, _ := e.havoc(base+"!aref", types.Typ[types.UnsafePointer])
			args[i] = SV{t: a.t, term: n}
			arefs = append(arefs, n)
			if _, ok := addrTypes[len(addrTypes)-1].Underlying().(*types.Struct); ok {
				// copy-in / copy-out: the callee sees the embedded struct as an object of its
				// own at an unknown pre-existing reference, so its frame clauses apply to it
				f.assume(fmt.Sprintf("(> %s 0)", n))
				f.assume(fmt.Sprintf("(= %s %s)", f.loadStruct(n, addrTypes[len(addrTypes)-1], f.curHeap), f.loadLoc(a.loc, f.curHeap)))
			}
		} else if a.loc != nil {
			args[i] = SV{t: a.t, term: a.loc.base}
		}
	}
	defer func() {
		for i, l := range addrArgs {
			f.wrote("write through address argument")
			if _, ok := addrTypes[i].Underlying().(*types.Struct); ok {
				f.storeLoc(l, f.loadStruct(arefs[i], addrTypes[i], f.curHeap), f.curHeap)
				continue
			}
			n, inv := e.havoc(base+"!addr", addrTypes[i])
			f.storeLoc(l, n, f.curHeap)
			f.assume(inv)
		}
	}()
	bind := f.calleeBind(callee, args)
	pkg := callee.Pkg.Pkg
	text := e.srcText(f.fn, pos, "call")
	for i, rq := range fc.Requires {
		ctx := &evalCtx{f: f, pkg: pkg, bind: bind, heap: f.curHeap, what: "requires of " + key}
		cndT, cndF := ctx.evalLocal(rq.Text)
		f.oblige(fmt.Sprintf("call.pre.%d", i+1), text, implies(and(cndF...), cndT), rq.Text, pos)
		f.assume(and(append(cndF, cndT)...))
	}
	// "pure_calls F" on the function under proof: every call of F is shown to satisfy F's
	// pure_if condition; F then neither writes nor (when its throws clause is the negation
	// of that condition) raises here, which keeps the verification condition small.
	if fc.PureIf != nil && e.top != nil && e.top.contract != nil && f.pureCallee(key) {
		ctx := &evalCtx{f: f, pkg: pkg, bind: bind, heap: f.curHeap, what: "pure_if of " + key}
		cndT, cndF := ctx.evalLocal(fc.PureIf.Text)
		f.oblige("call.pure", text, implies(and(cndF...), cndT), fc.PureIf.Text, pos)
		f.assume(and(append(cndF, cndT)...))
		var res SV
		if fc.Logical {
			res = f.logicalApp(callee, fc, args)
		} else {
			res = f.resultHavoc(base, resT)
		}
		nb := map[string]SV{}
		for k, v := range bind {
			nb[k] = v
		}
		bindResults(nb, callee, res)
		if len(fc.Throws) == 0 && !fc.NoThrow {
			f.recordCallThrow(key, pos)
		} else if !fc.NoThrow {
			// may still raise when its throws condition holds
			f.recordCallThrow(key, pos)
			var cs []string
			for _, th := range fc.Throws {
				ctx := &evalCtx{f: f, pkg: pkg, bind: bind, heap: f.curHeap, what: "throws of " + key}
				cs = append(cs, ctx.evalBoolText(th.Text))
			}
			f.throws[len(f.throws)-1].cond = and(cs...)
		}
		for _, en := range fc.Ensures {
			if strings.Contains(en.Text, "ncalls(") {
				continue // a count of the callee's own events says nothing at the call site
			}
			ctx := &evalCtx{f: f, pkg: pkg, bind: nb, heap: f.curHeap, oldHeap: f.curHeap, oldBind: bind, what: "ensures of " + key, calleeSide: true}
			f.assume(ctx.evalAssume(en.Text))
		}
		e.usedContracts[key] = true
		return res
	}
	oldHeap := f.curHeap.clone()
	if !fc.NoThrow && f.wantUnwind() && !f.inDeferred {
		f.excFromCall("call "+key, pos, func() {
			if fc.HasModifies {
				f.havocModifies(fc, callee, bind)
			} else if !fc.Pure {
				f.havocKeys(e.E.writeSet(callee))
			}
			for _, th := range fc.Throws {
				ctx := &evalCtx{f: f, pkg: pkg, bind: bind, heap: oldHeap, what: "throws of " + key}
				f.assume(ctx.evalAssume(th.Text))
			}
			f.restorePreserved(fc, pkg, oldHeap)
			f.restoreOnlyAt(fc, bind, oldHeap)
			for _, uw := range fc.Unwind {
				ctx := &evalCtx{f: f, pkg: pkg, bind: bind, heap: f.curHeap, oldHeap: oldHeap, oldBind: bind, what: "unwind_ensures of " + key, calleeSide: true}
				f.assume(ctx.evalAssume(uw.Text))
			}
		})
	}
	if !fc.NoThrow {
		f.recordCallThrow(key, pos)
		if len(fc.Throws) > 0 {
			var cs []string
			for _, th := range fc.Throws {
				ctx := &evalCtx{f: f, pkg: pkg, bind: bind, heap: f.curHeap, what: "throws of " + key}
				cs = append(cs, ctx.evalBoolText(th.Text))
			}
			f.throws[len(f.throws)-1].cond = and(cs...)
		}
	}
	// frame
	pureCond := ""
	if fc.PureIf != nil {
		ctx := &evalCtx{f: f, pkg: pkg, bind: bind, heap: f.curHeap, what: "pure_if of " + key}
		pureCond = e.define(e.fresh(base+"!pure"), "Bool", ctx.evalBoolText(fc.PureIf.Text))
	}
	f.calleePure = pureCond
	if fc.HasModifies {
		f.havocModifies(fc, callee, bind)
	} else if !fc.Pure {
		f.havocKeys(e.E.writeSet(callee))
	}
	f.calleePure = ""
	f.restorePreserved(fc, pkg, oldHeap)
	f.restoreOnlyAt(fc, bind, oldHeap)
	if pureCond != "" {
		f.curHeap = f.mergeHeaps([]string{pureCond, not(pureCond)}, []Heap{oldHeap, f.curHeap})
	}
	var res SV
	if fc.Logical {
		res = f.logicalApp(callee, fc, args)
	} else {
		res = f.resultHavoc(base, resT)
	}
	nb := map[string]SV{}
	for k, v := range bind {
		nb[k] = v
	}
	bindResults(nb, callee, res)
	// ghost results of the callee's own "calls ... as name" clauses are unknown here
	for _, cs := range fc.Calls {
		if cs.As == "" {
			continue
		}
		nb["called!"+cs.As] = f.resultHavoc(base+"!called", types.Typ[types.Bool])
		if cf := e.E.L.Funcs[cs.Callee]; cf != nil && cf.Signature.Results().Len() == 1 {
			g := f.resultHavoc(base+"!ghost", cf.Signature.Results().At(0).Type())
			nb[cs.As] = g
		} else if cf != nil && cf.Signature.Results().Len() > 1 {
			for i := 0; i < cf.Signature.Results().Len(); i++ {
				nb[fmt.Sprintf("%s_%d", cs.As, i)] = f.resultHavoc(fmt.Sprintf("%s!ghost%d", base, i), cf.Signature.Results().At(i).Type())
			}
		} else if rt := e.E.libResultType(cs.Callee); rt != nil {
			if tup, isTup := rt.(*types.Tuple); isTup {
				for i := 0; i < tup.Len(); i++ {
					nb[fmt.Sprintf("%s_%d", cs.As, i)] = f.resultHavoc(fmt.Sprintf("%s!ghost%d", base, i), tup.At(i).Type())
				}
			} else {
				g := f.resultHavoc(base+"!ghost", rt)
				nb[cs.As] = g
			}
		}
	}
	for _, en := range fc.Ensures {
		if strings.Contains(en.Text, "ncalls(") {
			continue // a count of the callee's own events says nothing at the call site
		}
		ctx := &evalCtx{f: f, pkg: pkg, bind: nb, heap: f.curHeap, oldHeap: oldHeap, oldBind: bind, what: "ensures of " + key, calleeSide: true}
		f.assume(ctx.evalAssume(en.Text))
	}
	e.usedContracts[key] = true
	return res
}

// isSourceVar: the identifier quoted in an "unknown identifier" message names a variable
// of the function (it has a debug reference somewhere in its body).
func (f *frame) isSourceVar(msg string) bool {
	i := strings.Index(msg, "\"")
	j := strings.LastIndex(msg, "\"")
	if i < 0 || j <= i {
		return false
	}
	name := msg[i+1 : j]
	if k := strings.Index(name, "\""); k >= 0 {
		name = name[:k]
	}
	for _, b := range f.fn.Blocks {
		for _, in := range b.Instrs {
			if d, ok := in.(*ssa.DebugRef); ok {
				if id, ok := d.Expr.(*ast.Ident); ok && id.Name == name {
					return true
				}
			}
		}
	}
	return false
}

func (f *frame) pureCallee(key string) bool {
	for _, k := range f.enc.top.contract.PureCalls {
		if k == key {
			return true
		}
	}
	return false
}

// havocModifies: "modifies a.b, c.d" – havoc the heap arrays of the named fields.
// A name of the form T.f denotes field f of struct type T; "*" everything.
func (f *frame) havocModifies(fc *FuncContract, callee *ssa.Function, bind map[string]SV) {
	e := f.enc
	w := map[string]bool{}
	for _, m := range fc.Modifies {
		if m == "*" {
			w["*"] = true
			continue
		}
		if ks, ok := e.modifiesSpecial(m, callee.Pkg.Pkg); ok {
			for _, k := range ks {
				w[k] = true
			}
			continue
		}
		parts := strings.SplitN(m, ".", 2)
		if len(parts) != 2 {
			bail("modifies entry %q of %s: want Type.field", m, fc.Key)
		}
		obj := callee.Pkg.Pkg.Scope().Lookup(parts[0])
		tn, ok := obj.(*types.TypeName)
		if !ok {
			bail("modifies entry %q of %s: unknown type", m, fc.Key)
		}
		st, ok := tn.Type().Underlying().(*types.Struct)
		if !ok {
			bail("modifies entry %q: not a struct", m)
		}
		found := false
		for i := 0; i < st.NumFields(); i++ {
			if st.Field(i).Name() == parts[1] || parts[1] == "*" {
				k, s := e.fieldHeapKey(tn.Type(), i)
				e.R.heapConst(k, s)
				w[k] = true
				found = true
			}
		}
		if !found {
			bail("modifies entry %q: no such field", m)
		}
	}
	f.havocKeys(w)
}

// ---------------------------------------------------------------------------
// inlining ("inline" contracts: the body is the contract)
// ---------------------------------------------------------------------------

func (f *frame) inlineCall(callee *ssa.Function, fc *FuncContract, args []SV, base string, resT types.Type, pos token.Pos) SV {
	return f.inlineCallWith(callee, fc, args, base, resT, pos, nil)
}

func (f *frame) inlineCallWith(callee *ssa.Function, fc *FuncContract, args []SV, base string, resT types.Type, pos token.Pos, setup func(*frame)) SV {
	e := f.enc
	e.depth++
	defer func() { e.depth-- }()
	nf := e.newFrame(callee, base+".")
	nf.contract = fc
	nf.parent = f
	for i, p := range callee.Params {
		nf.vals[p] = args[i]
	}
	if setup != nil {
		setup(nf)
	}
	nf.encodeBody(f.curPC, f.curHeap)
	for _, li := range nf.loopHeads {
		_ = li
		bail("inline callee %s has loops", fc.Key)
	}
	if len(nf.rets) == 0 {
		// never returns normally
		f.assume("false")
		return f.resultHavoc(base, resT)
	}
	// merge returns
	var conds []string
	var heaps []Heap
	for _, r := range nf.rets {
		conds = append(conds, r.pc)
		heaps = append(heaps, r.heap)
	}
	f.throws = append(f.throws, nf.throws...)
	f.curHeap = f.mergeHeaps(conds, heaps)
	f.curPC = e.define(e.fresh(base+".ret"), "Bool", or(conds...))
	e.usedContracts[fc.Key] = true
	mergeVal := func(i int, t types.Type) SV {
		term := ""
		for k := len(nf.rets) - 1; k >= 0; k-- {
			v := nf.rets[k].vals[i]
			if v.loc != nil || v.tuple != nil {
				bail("inline callee returns address/tuple")
			}
			if term == "" {
				term = v.term
			} else {
				term = ite(conds[k], v.term, term)
			}
		}
		if len(nf.rets) == 1 && strings.HasPrefix(term, "(- ") {
			// the single return value is a reference allocated by the inlined body: keep the
			// term itself, so that the caller still recognises its own allocation
			return SV{t: t, term: term}
		}
		return SV{t: t, term: e.define(e.fresh(base+".res"), e.R.sortOf(t), term)}
	}
	// allocations of the inlined body are allocations of this activation
	f.locals = append(f.locals, nf.locals...)
	if tup, ok := resT.(*types.Tuple); ok {
		var parts []SV
		for i := 0; i < tup.Len(); i++ {
			parts = append(parts, mergeVal(i, tup.At(i).Type()))
		}
		return SV{t: resT, tuple: parts}
	}
	return mergeVal(0, resT)
}

func hasLoop(fn *ssa.Function) bool {
	for _, b := range fn.Blocks {
		for _, s := range b.Succs {
			if s.Dominates(b) {
				return true
			}
		}
	}
	return false
}

func (f *frame) inlineClosure(callee *ssa.Function, mc *ssa.MakeClosure, args []SV, base string, resT types.Type, pos token.Pos) SV {
	fc := &FuncContract{Key: funcKey(callee), Inline: true, Invariants: map[int][]*Clause{}, Decreases: map[int]*Clause{}}
	return f.inlineCallWith(callee, fc, args, base, resT, pos, func(nf *frame) {
		for i, fv := range callee.FreeVars {
			nf.vals[fv] = f.get(mc.Bindings[i])
		}
	})
}

// ---------------------------------------------------------------------------
// builtins
// ---------------------------------------------------------------------------

func (f *frame) builtin(b *ssa.Builtin, c *ssa.CallCommon, base string, resT types.Type, pos token.Pos) SV {
	e := f.enc
	switch b.Name() {
	case "len", "cap":
		a := f.get(c.Args[0])
		s := e.R.sortOf(a.t)
		switch {
		case s == "Str":
			return SV{t: resT, term: fmt.Sprintf("(slen %s)", a.term)}
		case s == "Slice" && b.Name() == "len":
			return SV{t: resT, term: fmt.Sprintf("(sl-len %s)", a.term)}
		case s == "Slice":
			return SV{t: resT, term: fmt.Sprintf("(sl-cap %s)", a.term)}
		}
		if arr, ok := a.t.Underlying().(*types.Array); ok {
			return SV{t: resT, term: bvLit(arr.Len(), 64)}
		}
		if _, ok := a.t.Underlying().(*types.Map); ok {
			r := f.resultHavoc(base, resT)
			f.assume(fmt.Sprintf("(bvsle #x0000000000000000 %s)", r.term))
			return r
		}
		r := f.resultHavoc(base, resT)
		f.assume(fmt.Sprintf("(bvsle #x0000000000000000 %s)", r.term))
		return r
	case "append":
		s := f.get(c.Args[0])
		add := f.get(c.Args[1])
		el := s.t.Underlying().(*types.Slice).Elem()
		f.escape(c.Args[1])
		f.atCallObligations("append", []SV{s, add}, pos)
		// result: length grows by len(add); backing array may be fresh; contents of the
		// appended part come from add.  Model: fresh slice value with known length, element
		// heap of that type havocked at the result's array for the appended range only is
		// too fine; we havoc the whole element heap entry of the result array.
		var addLen string
		if e.R.sortOf(add.t) == "Str" {
			addLen = fmt.Sprintf("(slen %s)", add.term)
		} else {
			addLen = fmt.Sprintf("(sl-len %s)", add.term)
		}
		key, sort := e.elemHeapKey(el)
		cur := e.heapGet(f.curHeap, key, sort)
		// where the result lives: in the array of s when its capacity suffices (same
		// reference, offset and capacity; only the appended slots change), otherwise in an
		// array allocated by this call (a reference no other value of the function has)
		inPlace := e.define(e.fresh(base+"!inplace"), "Bool", fmt.Sprintf("(bvsle (bvadd (sl-len %s) %s) (sl-cap %s))", s.term, addLen, s.term))
		nref := f.newRef()
		f.locals = append(f.locals, localAlloc{ref: nref, t: types.NewArray(el, 0)})
		ncap := e.declare(e.fresh(base+"!cap"), bv64)
		newLen := fmt.Sprintf("(bvadd (sl-len %s) %s)", s.term, addLen)
		f.assume(fmt.Sprintf("(and (bvsle %s %s) (bvsle %s #x0000ffffffffffff))", newLen, ncap, ncap))
		r := SV{t: resT, term: e.define(base, "Slice", fmt.Sprintf("(mk-slice (ite %s (sl-ref %s) %s) (ite %s (sl-off %s) #x0000000000000000) %s (ite %s (sl-cap %s) %s))",
			inPlace, s.term, nref, inPlace, s.term, newLen, inPlace, s.term, ncap))}
		nh, _ := e.havoc(key+"!app", types.Typ[types.Int]) // placeholder name
		_ = nh
		newArr := e.declare(e.fresh(key+"!arr"), "(Array (_ BitVec 64) "+e.R.sortOf(el)+")")
		// elements below old length are preserved: result[q] == s[q] for q < len(s)
		exact := e.top != nil && e.top.contract != nil && e.top.contract.ExactAppend
		if exact {
			f.assume(fmt.Sprintf("(forall ((q!a (_ BitVec 64))) (=> (and (bvsle #x0000000000000000 q!a) (bvslt q!a (sl-len %s))) (= (select %s (bvadd (sl-off %s) q!a)) (select (select %s (sl-ref %s)) (bvadd (sl-off %s) q!a)))))",
			s.term, newArr, r.term, cur, s.term, s.term))
		}
		// in place: every slot of the array outside the appended range keeps its value
		if exact {
			f.assume(fmt.Sprintf("(=> %s (forall ((q!b (_ BitVec 64))) (=> (not (and (bvsle (bvadd (sl-off %s) (sl-len %s)) q!b) (bvslt q!b (bvadd (sl-off %s) (sl-len %s))))) (= (select %s q!b) (select (select %s (sl-ref %s)) q!b)))))",
			inPlace, s.term, s.term, r.term, r.term, newArr, cur, s.term))
		}
		// append(s, x1, .., xn) with n <= 8 written out: the appended slots hold x1 .. xn
		if sl, ok := c.Args[1].(*ssa.Slice); ok && e.R.sortOf(add.t) == "Slice" && sl.Low == nil && sl.High == nil {
			if pt, ok := sl.X.Type().Underlying().(*types.Pointer); ok {
				if at, ok := pt.Elem().Underlying().(*types.Array); ok && at.Len() >= 1 && at.Len() <= 8 {
					for i := int64(0); i < at.Len(); i++ {
						f.assume(fmt.Sprintf("(= (select %s (bvadd (sl-off %s) (bvadd (sl-len %s) %s))) (select (select %s (sl-ref %s)) (bvadd (sl-off %s) %s)))",
							newArr, r.term, s.term, bvLit(i, 64), cur, add.term, add.term, bvLit(i, 64)))
					}
				}
			}
		}
		e.heapSet(f.curHeap, key, sort, fmt.Sprintf("(store %s (sl-ref %s) %s)", cur, r.term, newArr))
		e.note("append: result length exact, appended elements known for up to eight written-out values; the prefix and (in place) the rest of the array are preserved in functions marked exact_append; the result shares the array of the first argument exactly when its capacity suffices, otherwise the array is new")
		return r
	case "copy":
		dst := f.get(c.Args[0])
		src := f.get(c.Args[1])
		el := dst.t.Underlying().(*types.Slice).Elem()
		key, sort := e.elemHeapKey(el)
		cur := e.heapGet(f.curHeap, key, sort)
		f.wrote("copy")
		newArr := e.declare(e.fresh(key+"!arr"), "(Array (_ BitVec 64) "+e.R.sortOf(el)+")")
		r := f.resultHavoc(base, resT)
		// n = min(len(dst), len(src)); dst[0:n] = src[0:n], the rest of dst's array unchanged
		var srcLen string
		if e.R.sortOf(src.t) == "Str" {
			srcLen = fmt.Sprintf("(slen %s)", src.term)
		} else {
			srcLen = fmt.Sprintf("(sl-len %s)", src.term)
		}
		f.assume(fmt.Sprintf("(= %s (ite (bvsle (sl-len %s) %s) (sl-len %s) %s))", r.term, dst.term, srcLen, dst.term, srcLen))
		oldDst := fmt.Sprintf("(select %s (sl-ref %s))", cur, dst.term)
		var srcElem string
		if e.R.sortOf(src.t) == "Str" {
			srcElem = fmt.Sprintf("(sbyte %s q!i)", src.term)
		} else {
			srcElem = fmt.Sprintf("(select (select %s (sl-ref %s)) (bvadd (sl-off %s) q!i))", cur, src.term, src.term)
		}
		f.assume(fmt.Sprintf("(forall ((q!i (_ BitVec 64))) (=> (and (bvsle #x0000000000000000 q!i) (bvslt q!i %s)) (= (select %s (bvadd (sl-off %s) q!i)) %s)))", r.term, newArr, dst.term, srcElem))
		f.assume(fmt.Sprintf("(forall ((q!j (_ BitVec 64))) (=> (not (and (bvsle (sl-off %s) q!j) (bvslt q!j (bvadd (sl-off %s) %s)))) (= (select %s q!j) (select %s q!j))))", dst.term, dst.term, r.term, newArr, oldDst))
		e.heapSet(f.curHeap, key, sort, fmt.Sprintf("(store %s (sl-ref %s) %s)", cur, dst.term, newArr))
		return r
	case "delete":
		m := f.get(c.Args[0])
		k := f.get(c.Args[1])
		mt := m.t.Underlying().(*types.Map)
		_, _, pk, ps := e.mapHeapKeys(mt)
		cp := e.heapGet(f.curHeap, pk, ps)
		e.heapSet(f.curHeap, pk, ps, fmt.Sprintf("(store %s %s (store (select %s %s) %s false))", cp, m.term, cp, m.term, k.term))
		return SV{t: resT}
	case "recover":
		return f.resultHavoc(base, resT)
	case "print", "println":
		return SV{t: resT}
	case "min", "max":
		a, bb := f.get(c.Args[0]), f.get(c.Args[1])
		if len(c.Args) != 2 || !isBVSort(e.R.sortOf(a.t)) {
			break
		}
		op := token.LSS
		if b.Name() == "max" {
			op = token.GTR
		}
		cnd := e.binopTerm(nil, op, a, bb, a.t, bb.t, pos)
		return SV{t: resT, term: ite(cnd, a.term, bb.term)}
	}
	bail("builtin %s", b.Name())
	return SV{}
}

// ---------------------------------------------------------------------------
// write-set inference (frame conditions without annotations)
// ---------------------------------------------------------------------------

var scratchReg = newTypeReg()

func fieldKeyOf(owner types.Type, field int) string {
	st := owner.Underlying().(*types.Struct)
	return "H_" + mangle(typeName(owner)) + "." + st.Field(field).Name()
}

// writeSet: heap arrays fn may write (caller-visible), including through its static
// callees; "*dyn" stands for code reached through function values or interfaces, "*" for
// anything.  Computed for all functions at once as a least fixed point.
func (E *Engine) writeSet(fn *ssa.Function) map[string]bool {
	if !E.effectsDone {
		E.computeWriteSets()
	}
	if w, ok := E.effects[fn]; ok {
		return w
	}
	return map[string]bool{"*": true}
}

func (E *Engine) computeWriteSets() {
	E.effectsDone = true
	var fns []*ssa.Function
	for _, k := range E.L.sortedFuncKeys() {
		fn := E.L.Funcs[k]
		fns = append(fns, fn)
		E.effects[fn] = map[string]bool{}
		if len(fn.Blocks) == 0 {
			E.effects[fn]["*"] = true
		}
	}
	for iter := 0; iter < 50; iter++ {
		changed := false
		for _, fn := range fns {
			w := map[string]bool{}
			for _, b := range fn.Blocks {
				for _, in := range b.Instrs {
					E.instrWrites(nil, in, w)
				}
			}
			cur := E.effects[fn]
			for k := range w {
				if !cur[k] {
					cur[k] = true
					changed = true
				}
			}
		}
		if !changed {
			break
		}
	}
	for _, fn := range fns {
		if E.effects[fn]["*"] {
			E.effects[fn] = map[string]bool{"*": true}
		}
	}
}

func addrKeys(addr ssa.Value, w map[string]bool) {
	switch a := addr.(type) {
	case *ssa.FieldAddr:
		owner := a.X.Type().Underlying().(*types.Pointer).Elem()
		// nested struct field: the outermost heap-resident struct owns the array
		if inner, ok := a.X.(*ssa.FieldAddr); ok {
			addrKeys(inner, w)
			return
		}
		w[fieldKeyOf(owner, a.Field)] = true
	case *ssa.IndexAddr:
		switch t := a.X.Type().Underlying().(type) {
		case *types.Slice:
			w["E_"+mangle(scratchReg.sortOf(t.Elem()))] = true
		case *types.Pointer:
			if inner, ok := a.X.(*ssa.FieldAddr); ok {
				addrKeys(inner, w)
				return
			}
			arr := t.Elem().Underlying().(*types.Array)
			w["E_"+mangle(scratchReg.sortOf(arr.Elem()))] = true
		}
	case *ssa.Global:
		w["G_"+mangle(a.Pkg.Pkg.Name()+"."+a.Name())] = true
	case *ssa.Alloc:
		// local cell or local struct: fields of that struct type
		t := a.Type().(*types.Pointer).Elem()
		structKeys(t, w)
	default:
		pt, ok := addr.Type().Underlying().(*types.Pointer)
		if !ok {
			w["*"] = true
			return
		}
		structKeys(pt.Elem(), w)
	}
}

func structKeys(t types.Type, w map[string]bool) {
	if st, ok := t.Underlying().(*types.Struct); ok {
		for i := 0; i < st.NumFields(); i++ {
			w[fieldKeyOf(t, i)] = true
		}
		return
	}
	w["C_"+mangle(scratchReg.sortOf(t))] = true
}

// instrWrites adds the heap keys instruction in may write to w.
// addrRoot follows FieldAddr/IndexAddr chains to the value the address is derived from.
func addrRoot(v ssa.Value) ssa.Value {
	for {
		switch a := v.(type) {
		case *ssa.FieldAddr:
			v = a.X
		case *ssa.IndexAddr:
			if _, isPtr := a.X.Type().Underlying().(*types.Pointer); isPtr {
				v = a.X
			} else {
				return v
			}
		default:
			return v
		}
	}
}

func (E *Engine) instrWrites(enc *FnEnc, in ssa.Instruction, w map[string]bool) {
	switch x := in.(type) {
	case *ssa.Store:
		if _, ok := addrRoot(x.Addr).(*ssa.Alloc); ok && enc == nil {
			// memory allocated by this activation: not a write to anything the caller
			// could have observed before the call (weak purity)
			return
		}
		addrKeys(x.Addr, w)
	case *ssa.MapUpdate:
		mt := x.Map.Type().Underlying().(*types.Map)
		n := mangle(scratchReg.sortOf(mt.Key())) + ".." + mangle(scratchReg.sortOf(mt.Elem()))
		w["M_"+n] = true
		w["MP_"+n] = true
	case *ssa.Call:
		E.callWrites(&x.Call, w)
	case *ssa.Defer:
		E.callWrites(&x.Call, w)
	case *ssa.Go:
		w["*"] = true
	}
}

func (E *Engine) callWrites(c *ssa.CallCommon, w map[string]bool) {
	if !E.effectsDone {
		E.computeWriteSets()
	}
	if b, ok := c.Value.(*ssa.Builtin); ok {
		switch b.Name() {
		case "append", "copy":
			if sl, ok := c.Args[0].Type().Underlying().(*types.Slice); ok {
				w["E_"+mangle(scratchReg.sortOf(sl.Elem()))] = true
			}
		case "delete":
			mt := c.Args[0].Type().Underlying().(*types.Map)
			n := mangle(scratchReg.sortOf(mt.Key())) + ".." + mangle(scratchReg.sortOf(mt.Elem()))
			w["MP_"+n] = true
		}
		return
	}
	callee := c.StaticCallee()
	if callee == nil {
		w["*dyn"] = true // code reached through a function value or interface
		return
	}
	if callee.Pkg == nil || E.L.SSA[callee.Pkg.Pkg.Name()] != callee.Pkg {
		// library: may write through slices/pointers it is given, and may call back
		// through interfaces and function values
		for _, a := range c.Args {
			switch t := a.Type().Underlying().(type) {
			case *types.Slice:
				if libReadsOnly(callee) {
					continue
				}
				w["E_"+mangle(scratchReg.sortOf(t.Elem()))] = true
			case *types.Pointer:
				if isOttoType(t.Elem()) {
					structKeys(t.Elem(), w)
				}
			case *types.Signature:
				w["*dyn"] = true
			case *types.Interface:
				if !libNoCallback(callee) {
					w["*dyn"] = true
				}
			}
		}
		return
	}
	if fc := E.CS.Funcs[funcKey(callee)]; fc != nil && len(fc.Preserves) > 0 && !fc.HasModifies && !fc.Pure {
		tmp := &FnEnc{E: E, R: scratchReg}
		drop := map[string]bool{}
		for _, ks := range tmp.fieldKeys(fc.Preserves, callee.Pkg.Pkg) {
			drop[ks[0]] = true
		}
		if cw, ok := E.effects[callee]; ok {
			for k := range cw {
				if !drop[k] {
					w[k] = true
				}
			}
		} else {
			w["*"] = true
		}
		return
	}
	if fc := E.CS.Funcs[funcKey(callee)]; fc != nil {
		if fc.Pure && !fc.HasModifies {
			return
		}
		if fc.HasModifies {
			// the callee's own modifies clause (checked when the callee is verified)
			tmp := &FnEnc{E: E, R: scratchReg}
			for _, m := range fc.Modifies {
				if m == "*" {
					w["*"] = true
					continue
				}
				if ks, ok := tmp.modifiesSpecial(m, callee.Pkg.Pkg); ok {
					for _, k := range ks {
						w[k] = true
					}
					continue
				}
				parts := strings.SplitN(m, ".", 2)
				if tn, ok := callee.Pkg.Pkg.Scope().Lookup(parts[0]).(*types.TypeName); ok && len(parts) == 2 {
					if st, ok := tn.Type().Underlying().(*types.Struct); ok {
						for i := 0; i < st.NumFields(); i++ {
							if st.Field(i).Name() == parts[1] || parts[1] == "*" {
								w[fieldKeyOf(tn.Type(), i)] = true
							}
						}
					}
				}
			}
			return
		}
	}
	if cw, ok := E.effects[callee]; ok {
		for k := range cw {
			w[k] = true
		}
	} else {
		w["*"] = true // function outside the verified packages without a body here
	}
}

func isOttoType(t types.Type) bool {
	if n, ok := t.(*types.Named); ok && n.Obj().Pkg() != nil {
		return strings.HasPrefix(n.Obj().Pkg().Path(), "github.com/robertkrimen/otto")
	}
	return false
}

// libNoCallback: library functions that take interface arguments but are documented not
// to call methods of otto types with side effects on otto's heap (formatting calls
// String()/Error() methods; otto's are read-only).
func libNoCallback(fn *ssa.Function) bool {
	p := ""
	if fn.Pkg != nil {
		p = fn.Pkg.Pkg.Path()
	}
	switch p {
	case "fmt", "errors", "strconv", "math", "strings", "unicode/utf8", "unicode/utf16", "unicode", "reflect", "bytes", "encoding/hex":
		return true
	}
	return false
}

func libReadsOnly(fn *ssa.Function) bool {
	p := ""
	if fn.Pkg != nil {
		p = fn.Pkg.Pkg.Path()
	}
	switch p + "." + fn.Name() {
	case "unicode/utf16.Decode", "unicode/utf8.DecodeRune", "strings.Join", "unicode/utf16.Encode", "bytes.NewBuffer", "unicode/utf8.Valid":
		return true
	}
	if p == "fmt" || p == "errors" {
		return true
	}
	return false
}

// logicalApp: the result of a "logical" function is the application of an uninterpreted
// function to its arguments, so two calls with equal arguments give equal results and the
// function can be named in specifications.
func (f *frame) logicalApp(callee *ssa.Function, fc *FuncContract, args []SV) SV {
	e := f.enc
	sig := callee.Signature
	if sig.Results().Len() != 1 {
		bail("logical function %s must have one result", fc.Key)
	}
	rt := sig.Results().At(0).Type()
	var ss, ts []string
	for _, a := range args {
		if a.loc != nil || a.tuple != nil {
			bail("logical function with address/tuple argument")
		}
		ss = append(ss, e.R.sortOf(a.t))
		ts = append(ts, a.term)
	}
	name := "lf!" + mangle(fc.Key)
	e.R.extra(fmt.Sprintf("(declare-fun %s (%s) %s)", name, strings.Join(ss, " "), e.R.sortOf(rt)))
	e.note("logical function " + fc.Key + ": assumed to be a deterministic function of its arguments (no dependence on the heap)")
	return SV{t: rt, term: fmt.Sprintf("(%s %s)", name, strings.Join(ts, " "))}
}

// ghostBind makes the ghost results of the function's "calls ... as name" clauses visible by
// name (a multi-valued callee: name_0, name_1, ...), read from the given heap.
func (f *frame) ghostBind(extra map[string]SV, heap Heap) { f.ghostBindFrom(extra, heap) }

func (top *frame) ghostBindFrom(extra map[string]SV, heap Heap) {
	e := top.enc
	for k, cs := range top.contract.Calls {
		if cs.As == "" {
			continue
		}
		t, ok := top.ghostRetTypes[k]
		if !ok || t == nil {
			continue
		}
		if tup, isTup := t.(*types.Tuple); isTup {
			for i := 0; i < tup.Len(); i++ {
				ct := tup.At(i).Type()
				term, ok2 := heap[fmt.Sprintf("%s!%d", ghostRetKey(k), i)]
				if !ok2 {
					term = e.zeroValue(ct)
				}
				extra[fmt.Sprintf("%s_%d", cs.As, i)] = SV{t: ct, term: term}
			}
			continue
		}
		term, ok2 := heap[ghostRetKey(k)]
		if !ok2 {
			term = e.zeroValue(t)
		}
		extra[cs.As] = SV{t: t, term: term}
	}
}

func ghostCallKey(k int) string { return fmt.Sprintf("ghost!call!%d", k) }

// ghostCntKey: the number of matching calls so far (ncalls(name) in contracts).
func ghostCntKey(k int) string { return fmt.Sprintf("ghost!cnt!%d", k) }

// noteCall updates the ghost flags of the function's "calls" clauses at a call site.
func ghostRetKey(k int) string { return fmt.Sprintf("ghost!ret!%d", k) }

// noteCallResult records the result of a matching call for "calls ... as name".
func (f *frame) noteCallResult(matches map[int]string, res SV) {
	e := f.enc
	if res.tuple != nil {
		for k, m := range matches {
			if e.top.contract.Calls[k].As == "" {
				continue
			}
			for i, comp := range res.tuple {
				if comp.tuple != nil || comp.loc != nil || comp.term == "" {
					continue
				}
				sortS := e.R.sortOf(comp.t)
				gk := fmt.Sprintf("%s!%d", ghostRetKey(k), i)
				e.R.heapDecl[gk] = sortS
				cur, ok := f.curHeap[gk]
				if !ok {
					cur = e.zeroValue(comp.t)
				}
				f.curHeap[gk] = e.define(e.fresh(gk), sortS, ite(m, comp.term, cur))
			}
		}
		return
	}
	if res.loc != nil || res.term == "" {
		return
	}
	for k, m := range matches {
		cs := e.top.contract.Calls[k]
		if cs.As == "" {
			continue
		}
		sortS := e.R.sortOf(res.t)
		gk := ghostRetKey(k)
		e.R.heapDecl[gk] = sortS
		cur, ok := f.curHeap[gk]
		if !ok {
			cur = e.zeroValue(res.t)
		}
		f.curHeap[gk] = e.define(e.fresh(gk), sortS, ite(m, res.term, cur))
		e.top.ghostRetTypes[k] = res.t
	}
}

func (f *frame) noteCall(key string, args []SV) map[int]string {
	e := f.enc
	top := e.top
	if top == nil || top.contract == nil || len(top.contract.Calls) == 0 {
		return nil
	}
	matches := map[int]string{}
	defer func() {}()
	for k, cs := range top.contract.Calls {
		if cs.Callee != key || len(cs.Args) != len(args) {
			continue
		}
		bind := top.selfBind()
		top.ghostBindFrom(bind, f.curHeap)
		ctx := &evalCtx{f: f, pkg: top.fn.Pkg.Pkg, bind: bind, heap: f.curHeap, oldHeap: top.entryHeap, oldBind: top.selfBind(), what: "calls clause of " + top.contract.Key}
		ctx.lookup = func(name string) (SV, bool) { return top.resolveName(name) }
		var eqs []string
		resolved := func() (ok bool) {
			// an argument pattern over a local that is not computed yet at this call site
			// cannot be compared: no match for a "calls" clause (harder to establish), a
			// match for a "nocall" clause (harder to establish)
			defer func() {
				if r := recover(); r != nil {
					if ce, isCE := r.(contractErr); isCE && strings.Contains(ce.msg, "unknown identifier") {
						ok = false
						return
					}
					panic(r)
				}
			}()
			for i, a := range cs.Args {
				if a == "_" {
					continue
				}
				if args[i].loc != nil || args[i].tuple != nil {
					continue
				}
				ex, err := parseExprText(a)
				if err != nil {
					cfail("calls clause: %v", err)
				}
				v := ctx.materialise(ctx.coerce(ctx.eval(ex), args[i].t))
				eqs = append(eqs, fmt.Sprintf("(= %s %s)", v.term, args[i].term))
			}
			return true
		}()
		if !resolved {
			if !cs.Negative {
				continue
			}
			eqs = nil
		}
		gk := ghostCallKey(k)
		cur, ok := f.curHeap[gk]
		if !ok {
			cur = "false"
		}
		m := e.define(e.fresh(gk+"!m"), "Bool", and(eqs...))
		matches[k] = m
		f.curHeap[gk] = e.define(e.fresh(gk), "Bool", or(cur, m))
		if cs.As != "" {
			ck := ghostCntKey(k)
			e.R.heapDecl[ck] = "(_ BitVec 64)"
			cnt, ok := f.curHeap[ck]
			if !ok {
				cnt = bvLit(0, 64)
			}
			f.curHeap[ck] = e.define(e.fresh(ck), "(_ BitVec 64)", fmt.Sprintf("(bvadd %s (ite %s %s %s))", cnt, m, bvLit(1, 64), bvLit(0, 64)))
		}
	}
	return matches
}

// modifiesSpecial: "elems(T)" names the element heap of []T, "map(K,V)" the heaps of map[K]V.
func (e *FnEnc) modifiesSpecial(m string, pkg *types.Package) ([]string, bool) {
	c := &evalCtx{f: &frame{enc: e}, pkg: pkg}
	switch {
	case strings.HasPrefix(m, "elems(") && strings.HasSuffix(m, ")"):
		t := c.resolveType(m[6 : len(m)-1])
		k, s := e.elemHeapKey(t)
		e.R.heapConst(k, s)
		return []string{k}, true
	case strings.HasPrefix(m, "cell(") && strings.HasSuffix(m, ")"):
		t := c.resolveType(m[5 : len(m)-1])
		k, s := e.cellHeapKey(t)
		e.R.heapConst(k, s)
		return []string{k}, true
	case strings.HasPrefix(m, "map(") && strings.HasSuffix(m, ")"):
		t := c.resolveType("map[" + strings.Replace(m[4:len(m)-1], ";", "]", 1))
		mt, ok := t.Underlying().(*types.Map)
		if !ok {
			return nil, false
		}
		vk, vs, pk, ps := e.mapHeapKeys(mt)
		e.R.heapConst(vk, vs)
		e.R.heapConst(pk, ps)
		return []string{vk, pk}, true
	}
	return nil, false
}

// excFromCall records the exceptional exit through a call: the state is the current one
// with the callee's effects applied by mk (havoc of its frame, its unwind_ensures).
func (f *frame) excFromCall(label string, pos token.Pos, mk func()) {
	saveHeap, savePC := f.curHeap, f.curPC
	f.curHeap = saveHeap.clone()
	saveDef := f.inDeferred
	f.inDeferred = true // nested effects of mk must not record further states
	mk()
	f.inDeferred = saveDef
	pc, heap := f.curPC, f.curHeap
	f.curHeap, f.curPC = saveHeap, savePC
	f.recordExc(label, pos, pc, heap)
}

// slotContract finds the contract of a function-valued struct field that is being called.
func (f *frame) slotContract(c *ssa.CallCommon) *FuncContract {
	if c.IsInvoke() {
		n, ok := c.Value.Type().(*types.Named)
		if !ok || n.Obj().Pkg() == nil {
			return nil
		}
		return f.enc.E.CS.Slots[n.Obj().Pkg().Name()+"."+n.Obj().Name()+"."+c.Method.Name()]
	}
	var owner types.Type
	field := -1
	switch v := c.Value.(type) {
	case *ssa.Field:
		owner, field = v.X.Type(), v.Field
	case *ssa.UnOp:
		if fa, ok := v.X.(*ssa.FieldAddr); ok {
			owner, field = fa.X.Type().Underlying().(*types.Pointer).Elem(), fa.Field
		}
	}
	if owner == nil {
		return nil
	}
	n, ok := owner.(*types.Named)
	if !ok || n.Obj().Pkg() == nil {
		return nil
	}
	st := owner.Underlying().(*types.Struct)
	return f.enc.E.CS.Slots[n.Obj().Pkg().Name()+"."+n.Obj().Name()+"."+st.Field(field).Name()]
}

// slotRequires: the caller of a slot establishes the slot's preconditions.
func (f *frame) slotRequires(slot *FuncContract, args []SV, pos token.Pos) {
	bind := map[string]SV{}
	for i, a := range args {
		bind[fmt.Sprintf("arg%d", i)] = a
	}
	for i, cl := range slot.Requires {
		ctx := &evalCtx{f: f, pkg: f.enc.E.typesPkg(slot.Pkg), bind: bind, heap: f.curHeap, what: "requires of " + slot.Key}
		text := f.enc.srcText(f.fn, pos, "call")
		cndT, cndF := ctx.evalLocal(cl.Text)
		f.oblige(fmt.Sprintf("call.pre.%d", i+1), text, implies(and(cndF...), cndT), cl.Text, pos)
		f.assume(and(append(cndF, cndT)...))
	}
}

func (f *frame) assumeSlot(slot *FuncContract, clauses []*Clause, args []SV, res SV, oldHeap Heap) {
	bind := map[string]SV{}
	for i, a := range args {
		bind[fmt.Sprintf("arg%d", i)] = a
	}
	// frame clauses of the slot: preserved fields and fields written only at one argument
	if sp := f.enc.E.L.SSA[slot.Pkg]; sp != nil {
		f.restorePreserved(slot, sp.Pkg, oldHeap)
	}
	f.restoreOnlyAt(slot, bind, oldHeap)
	nb := map[string]SV{}
	for k, v := range bind {
		nb[k] = v
	}
	if res.term != "" {
		nb["result"] = res
	}
	for _, cl := range clauses {
		ctx := &evalCtx{f: f, pkg: f.enc.E.typesPkg(slot.Pkg), bind: nb, heap: f.curHeap, oldHeap: oldHeap, oldBind: bind, what: slot.Key, calleeSide: true}
		f.assume(ctx.evalAssume(cl.Text))
	}
}

// havocDynamic: effect of code reached through function values / interfaces.  Everything
// is havocked, except the fields the function's contract declares preserved by dynamic
// callees (an inductive hypothesis, listed as an assumption) – unless the static part w
// of the write set names them.
func (f *frame) havocDynamic(w map[string]bool) {
	e := f.enc
	keep := map[string]string{}
	if top := e.top; top != nil && top.contract != nil {
		for _, m := range top.contract.DynPreserves {
			parts := strings.SplitN(m, ".", 2)
			tn, ok := top.fn.Pkg.Pkg.Scope().Lookup(parts[0]).(*types.TypeName)
			if !ok || len(parts) != 2 {
				cfail("dyn_preserves entry %q", m)
			}
			st := tn.Type().Underlying().(*types.Struct)
			for i := 0; i < st.NumFields(); i++ {
				if st.Field(i).Name() == parts[1] {
					k, s := e.fieldHeapKey(tn.Type(), i)
					if w == nil || !w[k] {
						keep[k] = e.heapGet(f.curHeap, k, s)
					}
				}
			}
		}
		if len(keep) > 0 {
			e.note("assumed (inductive hypothesis): code reached through function values or interface methods leaves " + strings.Join(top.contract.DynPreserves, ", ") + " unchanged on return and on panic")
		}
	}
	f.havocAllHeap()
	for k, v := range keep {
		f.curHeap[k] = v
	}
}

// fieldKeys resolves "Type.field" entries to heap keys (with sorts) in package pkg.
func (e *FnEnc) fieldKeys(entries []string, pkg *types.Package) [][2]string {
	var out [][2]string
	for _, m := range entries {
		if ks, ok := e.modifiesSpecial(m, pkg); ok {
			for _, k := range ks {
				out = append(out, [2]string{k, e.R.heapDecl[k]})
			}
			continue
		}
		parts := strings.SplitN(m, ".", 2)
		tn, ok := pkg.Scope().Lookup(parts[0]).(*types.TypeName)
		if !ok || len(parts) != 2 {
			cfail("field entry %q: want Type.field", m)
		}
		st, ok := tn.Type().Underlying().(*types.Struct)
		if !ok {
			cfail("field entry %q: not a struct", m)
		}
		found := false
		for i := 0; i < st.NumFields(); i++ {
			if st.Field(i).Name() == parts[1] {
				k, srt := e.fieldHeapKey(tn.Type(), i)
				e.R.heapConst(k, srt)
				out = append(out, [2]string{k, srt})
				found = true
			}
		}
		if !found {
			cfail("field entry %q: no such field", m)
		}
	}
	return out
}

// restorePreserved: fields a callee declares preserved keep their pre-call arrays.
func (f *frame) restorePreserved(fc *FuncContract, pkg *types.Package, oldHeap Heap) {
	for _, ks := range f.enc.fieldKeys(fc.Preserves, pkg) {
		if v, ok := oldHeap[ks[0]]; ok && !strings.HasPrefix(v, "?") {
			f.curHeap[ks[0]] = v
		} else {
			f.curHeap[ks[0]] = f.enc.heapGet(oldHeap, ks[0], ks[1])
		}
	}
}

// onlyAtKeys resolves "p.f" entries: the pointer term of p and the heap key of field f.
func (e *FnEnc) onlyAtKeys(entries []string, bind map[string]SV) [][3]string {
	var out [][3]string
	for _, m := range entries {
		parts := strings.SplitN(m, ".", 2)
		p, ok := bind[parts[0]]
		if !ok || len(parts) != 2 {
			cfail("writes_only_at entry %q: want param.field", m)
		}
		pt, ok := p.t.Underlying().(*types.Pointer)
		if !ok {
			cfail("writes_only_at entry %q: %s is not a pointer", m, parts[0])
		}
		st, ok := pt.Elem().Underlying().(*types.Struct)
		if !ok {
			cfail("writes_only_at entry %q: not a struct pointer", m)
		}
		found := false
		for i := 0; i < st.NumFields(); i++ {
			if st.Field(i).Name() == parts[1] {
				k, srt := e.fieldHeapKey(pt.Elem(), i)
				e.R.heapConst(k, srt)
				out = append(out, [3]string{k, srt, p.term})
				found = true
			}
		}
		if !found {
			cfail("writes_only_at entry %q: no such field", m)
		}
	}
	return out
}

// restoreOnlyAt: of the named fields only the named object may have changed.
func (f *frame) restoreOnlyAt(fc *FuncContract, bind map[string]SV, oldHeap Heap) {
	e := f.enc
	for _, ks := range e.onlyAtKeys(fc.OnlyAt, bind) {
		old := e.heapGet(oldHeap, ks[0], ks[1])
		cur := e.heapGet(f.curHeap, ks[0], ks[1])
		if old == cur {
			continue
		}
		e.heapSet(f.curHeap, ks[0], ks[1], fmt.Sprintf("(store %s %s (select %s %s))", old, ks[2], cur, ks[2]))
	}
}

// atCallObligations: "at_call F : expr" – expr must hold whenever F is about to be called.
func (f *frame) atCallObligations(key string, args []SV, pos token.Pos) {
	e := f.enc
	top := e.top
	if top == nil || top.contract == nil || len(top.contract.AtCalls) == 0 || f != top {
		return
	}
	siteLoop := 0
	if f.curInstr != nil && f.curInstr.Block() != nil {
		best := -1
		for _, li := range f.loopHeads {
			if li.blocks[f.curInstr.Block().Index] && (best < 0 || len(li.blocks) < best) {
				best = len(li.blocks)
				siteLoop = li.ord
			}
		}
	}
	for k, cs := range top.contract.AtCalls {
		if cs.Callee != key && !(key == "append" && strings.HasSuffix(cs.Callee, ".append")) {
			continue
		}
		if cs.Loop >= 0 && cs.Loop != siteLoop {
			continue
		}
		if e.atCallSeen == nil {
			e.atCallSeen = map[int]bool{}
		}
		e.atCallSeen[k] = true
		extra := map[string]SV{}
		for i, a := range args {
			if a.loc == nil && a.tuple == nil {
				extra[fmt.Sprintf("arg%d", i)] = a
			}
		}
		// ghost results of earlier calls ("calls F(..) as name") are visible by name
		top.ghostBindFrom(extra, f.curHeap)
		c, ok := func() (c string, ok bool) {
			// a clause naming a version of a local (x#upd) that is not computed yet at this
			// call site says nothing about this site
			defer func() {
				if r := recover(); r != nil {
					if ce, isCE := r.(contractErr); isCE && strings.Contains(ce.msg, "unknown identifier") {
						// a version (x#upd) or a local of the function that is not computed on
						// the way to this call site: the clause says nothing here.  A name that
						// is no variable of the function at all stays an error.
						if strings.Contains(ce.msg, "#") || f.isSourceVar(ce.msg) {
							ok = false
							e.note(fmt.Sprintf("at_call %s clause (%s:%d) says nothing at the call site %s: %s", cs.Callee, filepath.Base(cs.Clause.File), cs.Clause.Line, e.srcText(f.fn, pos, "call"), ce.msg))
							return
						}
					}
					panic(r)
				}
			}()
			f.atCallCtx = true
			defer func() { f.atCallCtx = false }()
			return f.evalContractBool(cs.Clause, f.curHeap, extra, nil), true
		}()
		if !ok {
			continue
		}
		f.oblige(fmt.Sprintf("atcall.%d", k+1), e.srcText(f.fn, pos, "call"), c, cs.Clause.Text, pos)
		o := e.obls[len(e.obls)-1]
		o.Props = cs.Clause.Props
	}
}
