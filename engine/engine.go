package main

import (
	"os"
	"fmt"
	"regexp"
	"go/ast"
	"go/parser"
	"go/token"
	"go/types"
	"sort"
	"strings"

	"golang.org/x/tools/go/ssa"
)

type Engine struct {
	L       *Loaded
	CS      *ContractSet
	effects map[*ssa.Function]map[string]bool
	effectsDone bool
	stable  map[string]*StableField
	roParams map[roParam]bool
	files   []*ast.File
	globals map[*ssa.Global]*globalInfo
}

func newEngine() (*Engine, error) {
	l, err := loadRepo()
	if err != nil {
		return nil, err
	}
	cs, err := loadContracts()
	if err != nil {
		return nil, err
	}
	E := &Engine{L: l, CS: cs, effects: map[*ssa.Function]map[string]bool{}}
	for _, p := range l.Pkgs {
		E.files = append(E.files, p.Syntax...)
	}
	E.scanGlobals()
	return E, nil
}

func (E *Engine) astFileFor(pos token.Pos) *ast.File {
	for _, f := range E.files {
		if f.Pos() <= pos && pos < f.End() {
			return f
		}
	}
	return nil
}

func (E *Engine) typesPkg(name string) *types.Package {
	if p, ok := E.L.SSA[name]; ok {
		return p.Pkg
	}
	return nil
}

// encodeFunc builds the verification conditions of one function under contract.  The
// encoding is repeated with the set of heap arrays found by the previous pass installed
// at entry, so that every array has an explicit version in every heap state (havoc and
// conditional frames then work per array, without the lazy "epoch" fallback).
func (E *Engine) encodeFunc(key string) (enc *FnEnc, err error) {
	preset := map[string]string{}
	var presetTypes []types.Type
	for pass := 0; pass < 5; pass++ {
		enc, err = E.encodeOnce(key, preset, presetTypes)
		if err != nil {
			return enc, err
		}
		grew := false
		if len(enc.R.ifaceOrder) > len(presetTypes) {
			grew = true
			presetTypes = nil
			for _, m := range enc.R.ifaceOrder {
				presetTypes = append(presetTypes, enc.R.ifaceTypes[m])
			}
		}
		for k, s := range enc.R.heapDecl {
			if strings.HasPrefix(k, "ghost!") || strings.HasPrefix(k, "G_") && enc.stableGlobals[k] {
				continue
			}
			if _, ok := preset[k]; !ok {
				preset[k] = s
				grew = true
			}
		}
		if !grew {
			return enc, nil
		}
	}
	return enc, nil
}

func (E *Engine) encodeOnce(key string, preset map[string]string, presetTypes []types.Type) (enc *FnEnc, err error) {
	fn := E.L.Funcs[key]
	fc := E.CS.Funcs[key]
	if fn == nil {
		return nil, fmt.Errorf("STALE contract: function %s not found", key)
	}
	if fc == nil {
		fc = &FuncContract{Key: key, Pkg: fn.Pkg.Pkg.Name(), Invariants: map[int][]*Clause{}, Decreases: map[int]*Clause{}}
	}
	enc = &FnEnc{E: E, Fn: fn, Key: key, C: fc, R: newTypeReg(), usedContracts: map[string]bool{}}
	defer func() {
		if r := recover(); r != nil {
			switch x := r.(type) {
			case unsupported:
				err = fmt.Errorf("out of subset: %s", x.msg)
			case contractErr:
				err = fmt.Errorf("contract error: %s", x.msg)
			default:
				panic(r)
			}
		}
	}()
	for _, t := range presetTypes {
		enc.R.ifaceCtor(t)
	}
	f := enc.newFrame(fn, "")
	f.isTop = true
	f.contract = fc
	enc.top = f
	pc := "true"
	heap := Heap{}
	var pk []string
	for k := range preset {
		pk = append(pk, k)
	}
	sort.Strings(pk)
	enc.refAxioms = fc.FreshRefs
	for _, k := range pk {
		heap[k] = enc.R.heapConst(k, preset[k])
		if enc.refAxioms && preset[k] == "(Array Int Int)" && strings.HasPrefix(k, "H_") {
			enc.refAxiom(k)
		}
	}
	f.curHeap = heap
	f.curPC = pc
	var invs []string
	for _, p := range fn.Params {
		s := enc.R.sortOf(p.Type())
		n := enc.declare("in!"+p.Name(), s)
		enc.inputs = append(enc.inputs, n)
		enc.inputTypes = append(enc.inputTypes, p.Type())
		f.vals[p] = SV{t: p.Type(), term: n}
		invs = append(invs, enc.typeInv(n, p.Type(), 2))
		if _, ok := p.Type().Underlying().(*types.Pointer); ok {
			invs = append(invs, fmt.Sprintf("(>= %s 0)", n))
		}
	}
	for _, fv := range fn.FreeVars {
		n, inv := enc.havoc("free!"+fv.Name(), fv.Type())
		f.vals[fv] = SV{t: fv.Type(), term: n}
		invs = append(invs, inv)
	}
	f.assume(and(invs...))
	for _, rq := range fc.Requires {
		c := f.evalContractMode(rq, f.curHeap, nil, nil, "assume")
		f.assume(c)
	}
	for _, rq := range fc.Assumes {
		c := f.evalContractMode(rq, f.curHeap, nil, nil, "assume")
		f.assume(c)
		enc.note("assumed heap invariant at entry of " + key + " (established by constructors outside the verified set, not checked at call sites): " + rq.Text)
	}
	for _, st := range fc.Stable {
		ctx := &evalCtx{f: f, pkg: fn.Pkg.Pkg, bind: f.selfBind(), heap: f.curHeap, what: "stable clause of " + key}
		ex, perr := parseExprText(st)
		if perr != nil {
			cfail("stable: %v", perr)
		}
		sv := ctx.eval(ex)
		sl, ok := sv.t.Underlying().(*types.Slice)
		if !ok {
			cfail("stable clause needs a slice")
		}
		f.locals = append(f.locals, localAlloc{ref: fmt.Sprintf("(sl-ref %s)", sv.term), t: types.NewArray(sl.Elem(), 0)})
		enc.note("assumed: the backing array of " + st + " is not written while " + key + " runs (no store into it exists in otto; aliasing through other slices assumed absent)")
	}
	for k, cs := range fc.Calls {
		enc.R.heapDecl[ghostCallKey(k)] = "Bool"
		f.curHeap[ghostCallKey(k)] = "false"
		if cs.As != "" {
			// the ghost result has the callee's result type even if no call site matches
			if cf := E.L.Funcs[cs.Callee]; cf != nil && cf.Signature.Results().Len() == 1 {
				f.ghostRetTypes[k] = cf.Signature.Results().At(0).Type()
			} else if cf != nil && cf.Signature.Results().Len() > 1 {
				// a multi-valued callee: the components are visible as name_0, name_1, ...
				f.ghostRetTypes[k] = cf.Signature.Results()
			} else if rt := E.libResultType(cs.Callee); rt != nil {
				f.ghostRetTypes[k] = rt
			} else if (cf != nil && cf.Signature.Results().Len() == 0) || cs.Callee == "select" {
				// no result: the name serves called(name) and ncalls(name) only
			} else {
				cfail("calls ... as %s: callee %s not found or not single-valued", cs.As, cs.Callee)
			}
		}
	}
	enc.prePC = f.curPC
	enc.preNDecls = len(enc.decls)
	if fc.PureIf == nil && fc.Pure && !fc.HasModifies {
		fc.PureIf = &Clause{Kind: "pure_if", Text: "true", Func: key, File: fc.File, Line: fc.Line}
	}
	if fc.PureIf != nil {
		enc.pureCond = enc.define("pure!cond", "Bool", f.evalContractBool(fc.PureIf, f.curHeap, nil, nil))
	}
	f.encodeBody(f.curPC, f.curHeap)
	f.frameObligation()
	f.fieldCoverObligations()
	f.postconditions()
	f.throwObligations()
	f.unwindObligations()
	f.applySplits()
	// an at_call clause that matches no call of the function says nothing: the contract is
	// stale (callee renamed, call removed) and that must not pass silently
	for k, cs := range fc.AtCalls {
		if !enc.atCallSeen[k] {
			cfail("at_call %s : ... matches no call in %s (stale clause)", cs.Callee, key)
		}
	}
	return enc, nil
}

// applySplits: "split e" clauses - every obligation of the function is decided separately
// under e and under !e (e over the entry state); it holds iff all cases hold.  Keeps hard
// floating-point obligations small; purely a proof-search device.
func (f *frame) applySplits() {
	fc := f.contract
	if len(fc.Split) == 0 {
		return
	}
	var conds []string
	for _, sp := range fc.Split {
		cl := &Clause{Kind: "split", Text: sp, Func: fc.Key, File: fc.File, Line: fc.Line}
		conds = append(conds, f.enc.define(f.enc.fresh("split"), "Bool", f.evalContractBool(cl, f.entryHeap, nil, f.entryHeap)))
	}
	nd := len(f.enc.decls)
	for _, o := range f.enc.obls {
		if o.Trivial || o.Kind == "cover" {
			continue
		}
		parts := o.Parts
		if len(parts) == 0 {
			parts = []oblPart{{PC: o.PC, Cond: o.Cond}}
		}
		for _, c := range conds {
			var np []oblPart
			for _, p := range parts {
				np = append(np, oblPart{PC: and(p.PC, c), Cond: p.Cond}, oblPart{PC: and(p.PC, not(c)), Cond: p.Cond})
			}
			parts = np
		}
		o.Parts = parts
		o.NDecls = nd
	}
}

// selfBind: names visible in the function's own contract.
func (f *frame) selfBind() map[string]SV {
	bind := map[string]SV{}
	for _, p := range f.fn.Params {
		bind[p.Name()] = f.vals[p]
	}
	for _, fv := range f.fn.FreeVars {
		bind[fv.Name()] = f.vals[fv]
		// captured_<name>: the same variable under a name that result/argN bindings cannot hide
		bind["captured_"+fv.Name()] = f.vals[fv]
	}
	if f.contract != nil && f.contract.Implements != "" {
		for i, p := range f.fn.Params {
			bind[fmt.Sprintf("arg%d", i)] = f.vals[p]
		}
	}
	return bind
}

func (f *frame) evalContractBool(cl *Clause, heap Heap, extra map[string]SV, oldHeap Heap) string {
	return f.evalContractMode(cl, heap, extra, oldHeap, "global")
}

// evalContractMode: mode "oblige" returns (=> definitions formula), "assume" returns
// (and definitions formula), "global" asserts definitions once for the whole query.
func (f *frame) evalContractMode(cl *Clause, heap Heap, extra map[string]SV, oldHeap Heap, mode string) string {
	bind := f.selfBind()
	if f.contract != nil && len(f.contract.Calls) > 0 && f == f.enc.top && (cl.Kind == "invariant" || cl.Kind == "at_backedge" || cl.Kind == "ensures" || cl.Kind == "throws" || cl.Kind == "unwind_ensures") {
		// ghost results of "calls ... as name" clauses, as recorded in the heap the clause is read in
		f.ghostBind(bind, heap)
	}
	for k, v := range extra {
		bind[k] = v
	}
	if oldHeap == nil {
		oldHeap = f.entryHeap
	}
	ctx := &evalCtx{f: f, pkg: f.fn.Pkg.Pkg, bind: bind, heap: heap, oldHeap: oldHeap, oldBind: f.selfBind(),
		what: fmt.Sprintf("%s clause of %s (%s:%d)", cl.Kind, cl.Func, cl.File, cl.Line)}
	ctx.lookup = func(name string) (SV, bool) { return f.resolveName(name) }
	switch mode {
	case "oblige":
		return ctx.evalOblige(cl.Text)
	case "assume":
		return ctx.evalAssume(cl.Text)
	}
	return ctx.evalBoolText(cl.Text)
}

// resolveName finds the SSA value a source-level variable name denotes at the current
// point: a phi of the current/enclosing loop head, an address-taken local, or a local
// with a single definition (from debug references).
func (f *frame) resolveName(name string) (SV, bool) {
	// name#k: the k-th variable of that name in declaration order (shadowing)
	if i := strings.Index(name, "#"); i > 0 && (name[i+1:] == "init" || name[i+1:] == "upd") {
		return f.resolveVersion(name[:i], name[i+1:])
	}
	if i := strings.Index(name, "#"); i > 0 {
		var k int
		fmt.Sscanf(name[i+1:], "%d", &k)
		return f.resolveNth(name[:i], k)
	}
	if name == "__rangeindex" {
		name = "rangeindex"
	}
	// in an at_call clause a local variable denotes its value at the call: the value of the
	// nearest debug reference before the call in the same block
	if f.atCallCtx && f.curInstr != nil {
		// a variable that lives in memory denotes its contents at the call, not an earlier load
		for _, b := range f.fn.Blocks {
			for _, in := range b.Instrs {
				if a, ok := in.(*ssa.Alloc); ok && a.Comment == name {
					if sv, ok := f.vals[a]; ok {
						if sv.loc != nil {
							return sv, true
						}
						return SV{t: a.Type(), loc: &Loc{kind: locCell, base: sv.term, elemT: a.Type().(*types.Pointer).Elem()}}, true
					}
				}
			}
		}
		if blk := f.curInstr.Block(); blk != nil {
			pos := -1
			for i, in := range blk.Instrs {
				if in == f.curInstr {
					pos = i
				}
			}
			// every value the variable is ever bound to (debug references), with the block of
			// each binding: needed to tell a superseded definition from the reaching one
			type binding struct {
				v ssa.Value
				b *ssa.BasicBlock
			}
			var all []binding
			distinct := map[ssa.Value]bool{}
			for _, b := range f.fn.Blocks {
				for _, in := range b.Instrs {
					if d, ok := in.(*ssa.DebugRef); ok && !d.IsAddr {
						if id, ok := d.Expr.(*ast.Ident); ok && id.Name == name {
							all = append(all, binding{d.X, b})
							distinct[d.X] = true
						}
					}
				}
			}
			give := func(v ssa.Value) (SV, bool) {
				if sv, ok := f.vals[v]; ok {
					return sv, true
				}
				if c, ok := v.(*ssa.Const); ok {
					return f.enc.constTerm(c), true
				}
				return SV{}, false
			}
			// this block, then its dominators (the definition reaching the call along every path)
			for b := blk; b != nil; b = b.Idom() {
				start := len(b.Instrs) - 1
				if b == blk {
					start = pos - 1
				}
				for i := start; i >= 0; i-- {
					d, ok := b.Instrs[i].(*ssa.DebugRef)
					if !ok || d.IsAddr {
						continue
					}
					id, ok := d.Expr.(*ast.Ident)
					if !ok || id.Name != name {
						continue
					}
					if b == blk || len(distinct) == 1 {
						// straight-line code before the call, or a variable bound only once
						if sv, ok := give(d.X); ok {
							return sv, true
						}
						continue
					}
					// a binding in a strict dominator reaches the call only if no other binding
					// of the variable lies on a path from there to the call: accept a phi when
					// every other binding is outside the region between its block and the call
					ph, isPhi := d.X.(*ssa.Phi)
					if !isPhi {
						continue
					}
					between := false
					for _, o := range all {
						if o.v == ssa.Value(ph) || o.b == b {
							continue
						}
						// another binding lies between when the call can be reached from it
						// without passing through b again (a loop's update in the latch, say,
						// reaches the call only through the head and b: it is not between)
						if o.b == blk || reachesAvoiding(o.b, blk, b) {
							between = true
						}
					}
					if between {
						continue
					}
					if sv, ok := give(d.X); ok {
						return sv, true
					}
				}
			}
		}
	}
	// phi nodes, innermost loop first
	var cands []*ssa.Phi
	if f.curLoop != nil {
		for _, in := range f.curLoop.head.Instrs {
			if phi, ok := in.(*ssa.Phi); ok && phi.Comment == name {
				return f.vals[phi], true
			}
		}
		for _, li := range f.loopHeads {
			if li != f.curLoop && li.blocks[f.curLoop.head.Index] {
				for _, in := range li.head.Instrs {
					if phi, ok := in.(*ssa.Phi); ok && phi.Comment == name {
						cands = append(cands, phi)
					}
				}
			}
		}
		if len(cands) == 1 {
			return f.vals[cands[0]], true
		}
	}
	// address-taken locals
	for _, b := range f.fn.Blocks {
		for _, in := range b.Instrs {
			if a, ok := in.(*ssa.Alloc); ok && a.Comment == name {
				if sv, ok := f.vals[a]; ok {
					if sv.loc != nil {
						return sv, true
					}
					return SV{t: a.Type(), loc: &Loc{kind: locCell, base: sv.term, elemT: a.Type().(*types.Pointer).Elem()}}, true
				}
			}
		}
	}
	// debug references: all values bound to a variable of that name
	seen := map[ssa.Value]bool{}
	var vals []ssa.Value
	for _, b := range f.fn.Blocks {
		for _, in := range b.Instrs {
			if d, ok := in.(*ssa.DebugRef); ok && !d.IsAddr {
				if id, ok := d.Expr.(*ast.Ident); ok && id.Name == name {
					if _, isConst := d.X.(*ssa.Const); isConst {
						continue
					}
					if !seen[d.X] {
						seen[d.X] = true
						vals = append(vals, d.X)
					}
				}
			}
		}
	}
	if len(vals) == 1 {
		if sv, ok := f.vals[vals[0]]; ok {
			return sv, true
		}
	}
	if len(vals) > 1 && f.curLoop != nil {
		// inside a loop clause: the one definition that the loop's own blocks refer to
		var inLoop []ssa.Value
		seenL := map[ssa.Value]bool{}
		for _, b := range f.fn.Blocks {
			if !f.curLoop.blocks[b.Index] {
				continue
			}
			for _, in := range b.Instrs {
				if d, ok := in.(*ssa.DebugRef); ok && !d.IsAddr {
					if id, ok := d.Expr.(*ast.Ident); ok && id.Name == name && !seenL[d.X] {
						if _, isConst := d.X.(*ssa.Const); !isConst {
							seenL[d.X] = true
							inLoop = append(inLoop, d.X)
						}
					}
				}
			}
		}
		if len(inLoop) == 1 {
			if sv, ok := f.vals[inLoop[0]]; ok {
				return sv, true
			}
		}
	}
	if len(vals) > 1 {
		// an if/else assignment: the merged variable is the one phi among the definitions
		// whose inputs are the other definitions (or constants)
		var phis []*ssa.Phi
		for _, v := range vals {
			if ph, ok := v.(*ssa.Phi); ok {
				phis = append(phis, ph)
			}
		}
		if len(phis) == 1 {
			okAll := true
			for _, ed := range phis[0].Edges {
				if _, isConst := ed.(*ssa.Const); isConst {
					continue
				}
				if !seen[ed] {
					okAll = false
				}
			}
			if sv, ok := f.vals[phis[0]]; ok && okAll {
				return sv, true
			}
		}
	}
	if len(vals) > 1 && f.atCallCtx {
		// at this call site no definition of the name reaches the call: not computed yet
		return SV{}, false
	}
	if len(vals) > 1 {
		// several definitions: if exactly one is a phi that has been encoded and dominates, ambiguous
		cfail("name %q is ambiguous in %s (%d definitions); use a loop phi or parameter", name, f.fn.Name(), len(vals))
	}
	return SV{}, false
}

func (f *frame) loopInvariants(li *loopInfo) []*Clause {
	if f.contract == nil || !f.isTop {
		return nil
	}
	return f.contract.Invariants[li.ord]
}

func (f *frame) loopDecreases(li *loopInfo) []*Clause {
	if f.contract == nil || !f.isTop {
		return nil
	}
	if d := f.contract.Decreases[li.ord]; d != nil {
		return []*Clause{d}
	}
	return nil
}

// Variants.  "decreases@k e" is a non-negative integer that strictly decreases on every
// back edge.  A lexicographic variant lists components separated by ";"; a component
// "up e to b" increases and is bounded above by b (compared without subtraction, which
// keeps the bit-vector queries easy), "e" (or "down e") decreases and is >= 0.
type variantComp struct {
	up    bool
	expr  string
	bound string
}

func parseVariant(text string) []variantComp {
	var cs []variantComp
	for _, part := range splitTop(text, ";") {
		part = strings.TrimSpace(part)
		c := variantComp{expr: part}
		if strings.HasPrefix(part, "up ") {
			c.up = true
			rest := strings.TrimSpace(part[3:])
			if i := strings.Index(rest, " to "); i >= 0 {
				c.expr = strings.TrimSpace(rest[:i])
				c.bound = strings.TrimSpace(rest[i+4:])
			} else {
				cfail("decreases: 'up e' needs 'to bound'")
			}
		} else if strings.HasPrefix(part, "down ") {
			c.expr = strings.TrimSpace(part[5:])
		}
		cs = append(cs, c)
	}
	return cs
}

func (f *frame) variantValues(li *loopInfo, text string) (vals, bounds []string, comps []variantComp) {
	bind := f.selfBind()
	ctx := &evalCtx{f: f, pkg: f.fn.Pkg.Pkg, bind: bind, heap: f.curHeap, oldHeap: f.entryHeap, oldBind: bind, what: "decreases of " + f.contract.Key}
	ctx.lookup = func(name string) (SV, bool) { return f.resolveName(name) }
	comps = parseVariant(text)
	for _, c := range comps {
		e, err := parseExprText(c.expr)
		if err != nil {
			cfail("decreases: %v", err)
		}
		vals = append(vals, ctx.toInt64(ctx.eval(e)))
		b := ""
		if c.bound != "" {
			be, err := parseExprText(c.bound)
			if err != nil {
				cfail("decreases: %v", err)
			}
			b = ctx.toInt64(ctx.eval(be))
		}
		bounds = append(bounds, b)
	}
	return
}

func (f *frame) recordVariant(li *loopInfo) {
	ds := f.loopDecreases(li)
	if len(ds) == 0 {
		return
	}
	vals, bounds, _ := f.variantValues(li, ds[0].Text)
	if f.variants == nil {
		f.variants = map[int][]string{}
		f.variantBounds = map[int][]string{}
	}
	var names, bnames []string
	for i, v := range vals {
		names = append(names, f.enc.define(f.enc.fresh(fmt.Sprintf("variant@%d.%d", li.ord, i+1)), bv64, v))
		if bounds[i] != "" {
			bnames = append(bnames, f.enc.define(f.enc.fresh(fmt.Sprintf("vbound@%d.%d", li.ord, i+1)), bv64, bounds[i]))
		} else {
			bnames = append(bnames, "")
		}
	}
	f.variants[li.ord] = names
	f.variantBounds[li.ord] = bnames
}

func (f *frame) checkVariant(li *loopInfo) {
	ds := f.loopDecreases(li)
	if len(ds) == 0 {
		return
	}
	head := f.variants[li.ord]
	hb := f.variantBounds[li.ord]
	vals, _, comps := f.variantValues(li, ds[0].Text)
	var bound []string
	for i, c := range comps {
		if c.up {
			bound = append(bound, fmt.Sprintf("(bvsle %s %s)", head[i], hb[i]))
		} else {
			bound = append(bound, fmt.Sprintf("(bvsge %s #x0000000000000000)", head[i]))
		}
	}
	// lexicographic strict decrease
	step := "false"
	for i := len(comps) - 1; i >= 0; i-- {
		var lt string
		if comps[i].up {
			lt = fmt.Sprintf("(bvsgt %s %s)", vals[i], head[i])
		} else {
			lt = fmt.Sprintf("(bvslt %s %s)", vals[i], head[i])
		}
		step = or(lt, and(fmt.Sprintf("(= %s %s)", vals[i], head[i]), step))
	}
	f.oblige(fmt.Sprintf("dec.bound@%d", li.ord), "", and(bound...), ds[0].Text, token.NoPos)
	f.oblige(fmt.Sprintf("dec.step@%d", li.ord), "", step, ds[0].Text, token.NoPos)
}

// postconditions: one obligation per ensures clause, over all return sites.
func (f *frame) postconditions() {
	e := f.enc
	fc := f.contract
	for k, cs := range fc.Calls {
		var conj []string
		when := "true"
		if cs.When != "" {
			when = f.evalContractBool(&Clause{Kind: "calls", Text: cs.When, Func: fc.Key, File: cs.Clause.File, Line: cs.Clause.Line}, f.entryHeap, nil, nil)
		}
		for _, r := range f.rets {
			flag, ok := r.heap[ghostCallKey(k)]
			if !ok {
				flag = "false"
			}
			if cs.Negative {
				flag = not(flag)
			}
			if cs.WhenRet != "" {
				// condition over the results of this return (and the state at return)
				extra := map[string]SV{}
				var res SV
				if len(r.vals) == 1 {
					res = r.vals[0]
				} else if len(r.vals) > 1 {
					res = SV{tuple: r.vals}
				}
				bindResults(extra, f.fn, res)
				f.ghostBind(extra, r.heap)
				save := f.curPC
				f.curPC = r.pc
				wr := f.evalContractMode(&Clause{Kind: "calls", Text: cs.WhenRet, Func: fc.Key, File: cs.Clause.File, Line: cs.Clause.Line}, r.heap, extra, nil, "assume")
				f.curPC = save
				flag = implies(wr, flag)
			}
			conj = append(conj, implies(r.pc, flag))
		}
		if cs.Negative && cs.WhenRet == "" {
			// the call must not have happened on a path that leaves by a panic either
			for _, ex := range f.excs {
				flag, ok := ex.heap[ghostCallKey(k)]
				if !ok {
					flag = "false"
				}
				conj = append(conj, implies(ex.pc, not(flag)))
			}
		}
		save := f.curPC
		f.curPC = e.prePC
		kind := "calls"
		if cs.Negative {
			kind = "nocall"
		}
		f.obligeClause(fmt.Sprintf("%s.%d", kind, k+1), cs.Callee, implies(when, and(conj...)), cs.Clause)
		f.curPC = save
	}
	if len(fc.Ensures) == 0 {
		return
	}
	for i, en := range fc.Ensures {
		var conj []string
		var parts []oblPart
		for _, r := range f.rets {
			extra := map[string]SV{}
			var res SV
			if len(r.vals) == 1 {
				res = r.vals[0]
			} else if len(r.vals) > 1 {
				res = SV{tuple: r.vals}
			}
			bindResults(extra, f.fn, res)
			f.ghostBind(extra, r.heap)
			save := f.curPC
			f.curPC = r.pc
			c := f.evalContractMode(en, r.heap, extra, nil, "oblige")
			f.curPC = save
			conj = append(conj, implies(r.pc, c))
			parts = append(parts, oblPart{PC: r.pc, Cond: c})
		}
		cond := and(conj...)
		if en.Region != "" {
			rg := f.evalContractBool(&Clause{Kind: "region", Text: en.Region, Func: fc.Key, File: en.File, Line: en.Line}, f.entryHeap, nil, nil)
			cond = or(rg, cond)
			parts = nil
		}
		save := f.curPC
		f.curPC = e.prePC
		label := en.Label
		f.obligeClause(fmt.Sprintf("post.%d", i+1), label, cond, en)
		if len(parts) > 3 {
			// many return sites: one query per site (same obligation, smaller queries)
			e.obls[len(e.obls)-1].Parts = parts
		}
		f.curPC = save
	}
}

func (f *frame) obligeClause(kind, label, cond string, cl *Clause) {
	f.oblige(kind, label, cond, cl.Text, token.NoPos)
	o := f.enc.obls[len(f.enc.obls)-1]
	o.Props = cl.Props
	o.Pos = fmt.Sprintf("%s:%d", strings.TrimPrefix(cl.File, repoDir+"/"), cl.Line)
}

// throwObligations: "nothrow" – no explicit throw and no call that may throw is reachable.
func (f *frame) throwObligations() {
	fc := f.contract
	// throws clauses: a throw (explicit or from a callee) is permitted only under the
	// stated condition, evaluated over the entry state
	for k, th := range fc.Throws {
		for _, t := range f.throws {
			if t.kind == "foreign" {
				continue
			}
			save := f.curPC
			f.curPC = t.pc
			if t.cond != "" {
				f.curPC = and(t.pc, t.cond)
			}
			label := t.text
			if t.kind == "call" {
				label = "call " + t.callee
			}
			c := f.evalContractBool(th, f.entryHeap, nil, nil)
			f.obligeClause(fmt.Sprintf("throw.%d", k+1), label, c, th)
			f.curPC = save
		}
	}
	if !fc.NoThrow {
		return
	}
	for _, t := range f.throws {
		if t.kind == "foreign" {
			continue // has its own obligation
		}
		save := f.curPC
		f.curPC = t.pc
		if t.cond != "" {
			f.curPC = and(t.pc, t.cond)
		}
		label := t.text
		if t.kind == "call" {
			label = "call " + t.callee
		}
		f.oblige("nothrow", label, "false", label, t.pos)
		f.curPC = save
	}
}

var nthRe = regexp.MustCompile(`([A-Za-z_][A-Za-z0-9_]*)#([0-9]+|init|upd)`)

// parseExprText parses a contract expression; "name#k" (k-th variable of that name) is
// passed through go/parser as the identifier name__nthk.
func parseExprText(s string) (ast.Expr, error) {
	s = strings.ReplaceAll(s, "$i", "__rangeindex")
	return parser.ParseExpr(nthRe.ReplaceAllString(s, "${1}__nth${2}"))
}

// obligationsFor returns the obligations of enc relevant for a property, with props filled.
func (enc *FnEnc) finalizeProps() {
	fc := enc.C
	for _, o := range enc.obls {
		if len(o.Props) > 0 {
			continue
		}
		if strings.HasPrefix(o.Kind, "safety") || o.Kind == "foreign" {
			ps := append([]string{}, fc.SafetyProps...)
			has := false
			for _, p := range ps {
				if p == "C02" {
					has = true
				}
			}
			if !has {
				ps = append(ps, "C02")
			}
			o.Props = ps
		} else {
			o.Props = fc.Props
		}
	}
}

func sortedKeys(m map[string]bool) []string {
	var ks []string
	for k := range m {
		ks = append(ks, k)
	}
	sort.Strings(ks)
	return ks
}

// frameObligation: with a modifies clause, everything the body may write (its inferred
// visible write set, callees by their own contracts) must be listed.  Discharged
// syntactically; reported as an obligation so that it appears in the evidence.
func (f *frame) frameObligation() {
	fc := f.contract
	if !fc.HasModifies {
		return // "pure" is checked semantically (frame.pure obligations at every write)
	}
	allowed := map[string]bool{}
	for _, m := range fc.Modifies {
		if m == "*" {
			return
		}
		if ks, ok := f.enc.modifiesSpecial(m, f.fn.Pkg.Pkg); ok {
			for _, k := range ks {
				allowed[k] = true
			}
			continue
		}
		parts := strings.SplitN(m, ".", 2)
		obj := f.fn.Pkg.Pkg.Scope().Lookup(parts[0])
		tn, ok := obj.(*types.TypeName)
		if !ok || len(parts) != 2 {
			cfail("modifies entry %q of %s", m, fc.Key)
		}
		st := tn.Type().Underlying().(*types.Struct)
		for i := 0; i < st.NumFields(); i++ {
			if st.Field(i).Name() == parts[1] || parts[1] == "*" {
				allowed[fieldKeyOf(tn.Type(), i)] = true
			}
		}
	}
	w := map[string]bool{}
	for _, b := range f.fn.Blocks {
		for _, in := range b.Instrs {
			if os.Getenv("GOWP_DEBUG") != "" {
				w1 := map[string]bool{}
				f.enc.E.instrWrites(nil, in, w1)
				if w1["*"] || w1["*dyn"] {
					fmt.Fprintf(os.Stderr, "DEBUG frame: %s writes %v\n", in.String(), w1)
				}
			}
			f.enc.E.instrWrites(nil, in, w)
		}
	}
	var extra []string
	for k := range w {
		if k == "*dyn" {
			k = "*"
		}
		if !allowed[k] {
			extra = append(extra, k)
		}
	}
	sort.Strings(extra)
	cond := "true"
	text := "modifies " + strings.Join(fc.Modifies, ", ")
	if fc.Pure && !fc.HasModifies {
		text = "pure"
	}
	if len(extra) > 0 {
		cond = "false"
		text += " -- but the body may also write: " + strings.Join(extra, ", ")
	}
	save := f.curPC
	f.curPC = "true"
	f.oblige("frame.modifies", "", cond, text, token.NoPos)
	f.curPC = save
}

// resolveVersion: of a variable that is assigned in a loop, name#init is the value it is
// declared with (the first definition in source order) and name#upd the value assigned
// inside the loop (the unique non-phi definition in a loop body).
func (f *frame) resolveVersion(name, which string) (SV, bool) {
	type def struct {
		v   ssa.Value
		pos token.Pos
	}
	var defs []def
	seen := map[ssa.Value]bool{}
	for _, b := range f.fn.Blocks {
		for _, in := range b.Instrs {
			d, ok := in.(*ssa.DebugRef)
			if !ok || d.IsAddr {
				continue
			}
			id, ok := d.Expr.(*ast.Ident)
			if !ok || id.Name != name {
				continue
			}
			if _, isConst := d.X.(*ssa.Const); isConst || seen[d.X] {
				continue
			}
			seen[d.X] = true
			defs = append(defs, def{d.X, d.Pos()})
		}
	}
	var pick ssa.Value
	switch which {
	case "init":
		for _, d := range defs {
			if _, isPhi := d.v.(*ssa.Phi); isPhi {
				continue
			}
			if pick == nil || d.v.Pos() < pick.Pos() {
				pick = d.v
			}
		}
	case "upd":
		n := 0
		for _, d := range defs {
			if _, isPhi := d.v.(*ssa.Phi); isPhi {
				continue
			}
			in, ok := d.v.(ssa.Instruction)
			if !ok {
				continue
			}
			for _, li := range f.loopHeads {
				if li.blocks[in.Block().Index] {
					pick = d.v
					n++
					break
				}
			}
		}
		if n != 1 {
			cfail("%s#upd: %d assignments inside loops in %s", name, n, f.fn.Name())
		}
	}
	if pick == nil {
		cfail("%s#%s: no such definition in %s", name, which, f.fn.Name())
	}
	sv, ok := f.vals[pick]
	return sv, ok
}

// resolveNth resolves name#k through go/ssa's debug references: the k-th distinct
// variable object of that name (by declaration position) and its unique non-constant value.
func (f *frame) resolveNth(name string, k int) (SV, bool) {
	type objInfo struct {
		obj  types.Object
		vals []ssa.Value
	}
	var objs []*objInfo
	find := func(o types.Object) *objInfo {
		for _, oi := range objs {
			if oi.obj == o {
				return oi
			}
		}
		oi := &objInfo{obj: o}
		objs = append(objs, oi)
		return oi
	}
	info := f.enc.E.typeInfoFor(f.fn)
	for _, b := range f.fn.Blocks {
		for _, in := range b.Instrs {
			d, ok := in.(*ssa.DebugRef)
			if !ok || d.IsAddr {
				continue
			}
			id, ok := d.Expr.(*ast.Ident)
			if !ok || id.Name != name || info == nil {
				continue
			}
			obj := info.ObjectOf(id)
			if obj == nil {
				continue
			}
			oi := find(obj)
			if _, isConst := d.X.(*ssa.Const); isConst {
				continue
			}
			dup := false
			for _, v := range oi.vals {
				if v == d.X {
					dup = true
				}
			}
			if !dup {
				oi.vals = append(oi.vals, d.X)
			}
		}
	}
	sort.Slice(objs, func(i, j int) bool { return objs[i].obj.Pos() < objs[j].obj.Pos() })
	if k < 1 || k > len(objs) {
		cfail("%s#%d: only %d variables of that name in %s", name, k, len(objs), f.fn.Name())
	}
	oi := objs[k-1]
	if len(oi.vals) > 1 {
		// a loop variable: its initial value, the phi at the loop head and the updated value;
		// the variable as the loop sees it is the phi
		var phis []ssa.Value
		for _, v := range oi.vals {
			if _, ok := v.(*ssa.Phi); ok {
				phis = append(phis, v)
			}
		}
		if len(phis) == 1 {
			sv, ok := f.vals[phis[0]]
			return sv, ok
		}
	}
	if len(oi.vals) != 1 {
		cfail("%s#%d has %d definitions in %s", name, k, len(oi.vals), f.fn.Name())
	}
	sv, ok := f.vals[oi.vals[0]]
	return sv, ok
}

// reachesAvoiding: there is a path from block from to block to that does not enter block avoid.
func reachesAvoiding(from, to, avoid *ssa.BasicBlock) bool {
	if from == avoid {
		return false
	}
	seen := map[*ssa.BasicBlock]bool{from: true}
	work := []*ssa.BasicBlock{from}
	for len(work) > 0 {
		b := work[len(work)-1]
		work = work[:len(work)-1]
		for _, s := range b.Succs {
			if s == avoid || seen[s] {
				continue
			}
			if s == to {
				return true
			}
			seen[s] = true
			work = append(work, s)
		}
	}
	return false
}

func (E *Engine) typeInfoFor(fn *ssa.Function) *types.Info {
	for _, p := range E.L.Pkgs {
		if p.Types == fn.Pkg.Pkg {
			return p.TypesInfo
		}
	}
	return nil
}

// unwindObligations: on every exceptional exit (a panic raised here or passing through a
// call), after the deferred calls registered on that path have run, the unwind_ensures
// clauses hold.  One obligation per clause and exit point.
// preservedCond: every object that existed at entry has the same value in the preserved
// fields (objects allocated by this activation have negative references and are exempt).
func (f *frame) preservedCond(heap Heap) string {
	return and(f.preservedConds(heap)...)
}

func (f *frame) preservedConds(heap Heap) []string {
	e := f.enc
	var cs []string
	for _, ks := range e.onlyAtKeys(f.contract.OnlyAt, f.selfBind()) {
		now := e.heapGet(heap, ks[0], ks[1])
		then := e.heapGet(f.entryHeap, ks[0], ks[1])
		if now == then {
			continue
		}
		cs = append(cs, fmt.Sprintf("(forall ((q!r Int)) (=> (and (>= q!r 0) (not (= q!r %s))) (= (select %s q!r) (select %s q!r))))", ks[2], now, then))
	}
	for _, ks := range e.fieldKeys(f.contract.Preserves, f.fn.Pkg.Pkg) {
		now := e.heapGet(heap, ks[0], ks[1])
		then := e.heapGet(f.entryHeap, ks[0], ks[1])
		if now == then {
			continue
		}
		cs = append(cs, fmt.Sprintf("(forall ((q!r Int)) (=> (>= q!r 0) (= (select %s q!r) (select %s q!r))))", now, then))
	}
	return cs
}

// frameOblige: one obligation for the frame clauses, solved conjunct by conjunct.
func (f *frame) frameOblige(name, label, text string, heap Heap, pos token.Pos) {
	cs := f.preservedConds(heap)
	if len(cs) == 0 {
		return
	}
	f.oblige(name, label, and(cs...), text, pos)
	if len(cs) > 1 {
		var parts []oblPart
		for _, c := range cs {
			parts = append(parts, oblPart{PC: f.curPC, Cond: c})
		}
		f.enc.obls[len(f.enc.obls)-1].Parts = parts
	}
}

func (f *frame) unwindObligations() {
	fc := f.contract
	if len(fc.Preserves) > 0 || len(fc.OnlyAt) > 0 {
		// on normal return
		var parts []oblPart
		var conj []string
		for _, r := range f.rets {
			c := f.preservedCond(r.heap)
			conj = append(conj, implies(r.pc, c))
			parts = append(parts, oblPart{PC: r.pc, Cond: c})
		}
		save := f.curPC
		f.curPC = f.enc.prePC
		f.oblige("preserve.return", "", and(conj...), "preserves "+strings.Join(fc.Preserves, ", ")+"; writes_only_at "+strings.Join(fc.OnlyAt, ", "), token.NoPos)
		if len(parts) > 1 {
			f.enc.obls[len(f.enc.obls)-1].Parts = parts
		}
		f.curPC = save
	}
	if len(fc.Unwind) == 0 && len(fc.Preserves) == 0 && len(fc.OnlyAt) == 0 {
		return
	}
	for _, ex := range f.excs {
		saveHeap, savePC := f.curHeap, f.curPC
		f.curHeap = ex.heap.clone()
		f.curPC = ex.pc
		f.inDeferred = true
		f.runDefersHere()
		f.inDeferred = false
		for k, uw := range fc.Unwind {
			c := f.evalContractBool(uw, f.curHeap, nil, nil)
			f.oblige(fmt.Sprintf("unwind.%d", k+1), ex.label, c, uw.Text, ex.pos)
			o := f.enc.obls[len(f.enc.obls)-1]
			o.Props = uw.Props
		}
		if len(fc.Preserves) > 0 || len(fc.OnlyAt) > 0 {
			f.oblige("preserve.unwind", ex.label, f.preservedCond(f.curHeap), "preserves "+strings.Join(fc.Preserves, ", "), ex.pos)
		}
		f.curHeap, f.curPC = saveHeap, savePC
	}
}

// fieldCoverObligations: "fieldcover T ignore=a,b" – the contract must say something about
// every field of struct type T (a field added to T later without a clause is reported).
// Syntactic: the field name must occur as ".name" in some ensures clause.
func (f *frame) fieldCoverObligations() {
	fc := f.contract
	for _, spec := range fc.FieldCover {
		parts := strings.Fields(spec)
		if len(parts) == 0 {
			continue
		}
		tn, ok := f.fn.Pkg.Pkg.Scope().Lookup(parts[0]).(*types.TypeName)
		if !ok {
			cfail("fieldcover: unknown type %s", parts[0])
		}
		st, ok := tn.Type().Underlying().(*types.Struct)
		if !ok {
			cfail("fieldcover: %s is not a struct", parts[0])
		}
		ignore := map[string]bool{}
		for _, p := range parts[1:] {
			if strings.HasPrefix(p, "ignore=") {
				for _, n := range strings.Split(strings.TrimPrefix(p, "ignore="), ",") {
					ignore[n] = true
				}
			}
		}
		var text strings.Builder
		for _, en := range fc.Ensures {
			text.WriteString(en.Text)
			text.WriteString(" ")
		}
		all := text.String()
		var missing []string
		for i := 0; i < st.NumFields(); i++ {
			name := st.Field(i).Name()
			if ignore[name] {
				continue
			}
			if !containsWord(all, "."+name) && !strings.Contains(all, "."+name+" ") && !strings.Contains(all, "."+name+")") && !strings.Contains(all, "."+name+".") && !strings.Contains(all, "."+name+"[") {
				missing = append(missing, name)
			}
		}
		cond := "true"
		t := "every field of " + parts[0] + " is covered by an ensures clause"
		if len(missing) > 0 {
			cond = "false"
			t += " -- not covered: " + strings.Join(missing, ", ")
		}
		save := f.curPC
		f.curPC = "true"
		f.oblige("frame.fieldcover", parts[0], cond, t, token.NoPos)
		f.curPC = save
	}
}

// libResultType: result type of a library function or method named as in the library
// models ("pkg.Func", "pkg.(pkg.Recv).Method"), when it has exactly one result.
func (E *Engine) libResultType(key string) types.Type {
	// "pkg.Iface.method" of an interface declared in one of the verified packages
	if parts := strings.Split(key, "."); len(parts) == 3 {
		if sp := E.L.SSA[parts[0]]; sp != nil {
			if tn, ok := sp.Pkg.Scope().Lookup(parts[1]).(*types.TypeName); ok && types.IsInterface(tn.Type()) {
				obj, _, _ := types.LookupFieldOrMethod(tn.Type(), false, sp.Pkg, parts[2])
				if fn, ok := obj.(*types.Func); ok {
					if sig := fn.Type().(*types.Signature); sig.Results().Len() == 1 {
						return sig.Results().At(0).Type()
					}
				}
			}
		}
	}
	for _, p := range E.L.Prog.AllPackages() {
		path := p.Pkg.Path()
		if !strings.HasPrefix(key, path+".") {
			continue
		}
		rest := key[len(path)+1:]
		var sig *types.Signature
		if strings.HasPrefix(rest, "(") {
			i := strings.Index(rest, ").")
			if i < 0 {
				continue
			}
			recv, meth := rest[1:i], rest[i+2:]
			recv = strings.TrimPrefix(recv, "*")
			if j := strings.LastIndex(recv, "."); j >= 0 {
				recv = recv[j+1:]
			}
			tn, _ := p.Pkg.Scope().Lookup(recv).(*types.TypeName)
			if tn == nil {
				continue
			}
			obj, _, _ := types.LookupFieldOrMethod(types.NewPointer(tn.Type()), true, p.Pkg, meth)
			if fn, ok := obj.(*types.Func); ok {
				sig = fn.Type().(*types.Signature)
			}
		} else if fn, ok := p.Pkg.Scope().Lookup(rest).(*types.Func); ok {
			sig = fn.Type().(*types.Signature)
		}
		if sig != nil && sig.Results().Len() == 1 {
			return sig.Results().At(0).Type()
		}
		if sig != nil && sig.Results().Len() > 1 {
			return sig.Results() // a tuple: the ghost binds name_0, name_1, ...
		}
	}
	return nil
}
