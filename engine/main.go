package main

import (
	"flag"
	"fmt"
	"os"
	"sort"
	"time"
)

func main() {
	if len(os.Args) < 2 {
		fmt.Fprintln(os.Stderr, "usage: gowp check|replay|vc|ssa|funcs ...")
		os.Exit(2)
	}
	switch os.Args[1] {
	case "ssa":
		l, err := loadRepo()
		if err != nil {
			fmt.Fprintln(os.Stderr, err)
			os.Exit(2)
		}
		for _, k := range os.Args[2:] {
			fn := l.Funcs[k]
			if fn == nil {
				fmt.Println("no such function", k)
				continue
			}
			fn.WriteTo(os.Stdout)
		}
	case "funcs":
		l, err := loadRepo()
		if err != nil {
			fmt.Fprintln(os.Stderr, err)
			os.Exit(2)
		}
		for _, k := range l.sortedFuncKeys() {
			fmt.Println(k)
		}
	case "writes":
		E, err := newEngine()
		if err != nil {
			fmt.Fprintln(os.Stderr, err)
			os.Exit(2)
		}
		for _, k := range os.Args[2:] {
			fn := E.L.Funcs[k]
			if fn == nil {
				fmt.Println("no such function", k)
				continue
			}
			fmt.Println(k, "writes:", sortedKeys(E.writeSet(fn)))
			if os.Getenv("GOWP_DEBUG") != "" {
				for _, b := range fn.Blocks {
					for _, in := range b.Instrs {
						w := map[string]bool{}
						E.instrWrites(nil, in, w)
						if len(w) > 0 {
							fmt.Printf("   %s: %v\n", in.String(), sortedKeys(w))
						}
					}
				}
			}
		}
	case "builtins":
		E, err := newEngine()
		if err != nil {
			fmt.Fprintln(os.Stderr, err)
			os.Exit(2)
		}
		t := E.evalNewContext()
		for _, e := range t.errs {
			fmt.Println("ERR", e)
		}
		var names []string
		for n := range t.objs {
			names = append(names, n)
		}
		sort.Strings(names)
		for _, n := range names {
			o := t.objs[n]
			fmt.Printf("OBJ %s class=%s proto=%s\n", n, o.class, o.proto)
			var ks []string
			for k := range o.props {
				ks = append(ks, k)
			}
			sort.Strings(ks)
			for _, k := range ks {
				pr := o.props[k]
				ln, call := "", ""
				if pr.obj != nil {
					if lp := pr.obj.props["length"]; lp != nil {
						ln = lp.text
					}
					call = pr.obj.call
				}
				fmt.Printf("  %s.%s mode=%#o kind=%s ref=%s len=%s call=%s text=%s\n", n, k, pr.mode, pr.kind, pr.ref, ln, call, pr.text)
			}
		}
	case "vc":
		cmdVC(os.Args[2:])
	case "check":
		os.Exit(cmdCheck(os.Args[2:]))
	case "replay":
		os.Exit(cmdReplay(os.Args[2:]))
	default:
		fmt.Fprintln(os.Stderr, "unknown command", os.Args[1])
		os.Exit(2)
	}
}

// cmdVC: developer command – encode the named functions and discharge everything.
func cmdVC(args []string) {
	fs := flag.NewFlagSet("vc", flag.ExitOnError)
	keep := fs.String("keep", "", "directory to keep SMT files in")
	tmo := fs.Int("t", 10, "timeout seconds")
	only := fs.String("only", "", "only obligations whose name contains this")
	all := fs.Bool("all", false, "all functions under contract")
	verbose := fs.Bool("v", false, "print every probed atom of counterexamples")
	covers := fs.Bool("covers", false, "instead of proving, report obligations whose path condition is unsatisfiable")
	fs.Parse(args)
	E, err := newEngine()
	if err != nil {
		fmt.Fprintln(os.Stderr, err)
		os.Exit(2)
	}
	keys := fs.Args()
	if *all {
		for k := range E.CS.Funcs {
			keys = append(keys, k)
		}
		sort.Strings(keys)
	}
	dir := *keep
	if dir == "" {
		dir, _ = os.MkdirTemp("", "gowp-vc-")
		defer os.RemoveAll(dir)
	} else {
		os.MkdirAll(dir, 0o755)
	}
	for _, k := range keys {
		start := time.Now()
		enc, err := E.encodeFunc(k)
		if err != nil {
			fmt.Printf("%s: %v\n", k, err)
			continue
		}
		enc.finalizeProps()
		var obls []*Obl
		for _, o := range enc.obls {
			if *only == "" || contains(o.Name, *only) {
				obls = append(obls, o)
			}
		}
		if *covers {
			var cs []*Obl
			for _, o := range obls {
				cs = append(cs, &Obl{Name: o.Name + "#cover", Kind: "cover", Func: o.Func, PC: o.PC, Cond: "false", NDecls: o.NDecls, enc: o.enc, Pos: o.Pos})
			}
			obls = cs
		}
		sub := dir + "/" + mangle(k)
		os.MkdirAll(sub, 0o755)
		res := dischargeAll(obls, sub, time.Duration(*tmo)*time.Second, false, 14)
		ok := 0
		for _, o := range obls {
			r := res[o]
			if *covers {
				if r.Status != "sat" {
					fmt.Printf("  VACUOUS? %-8s %s %s\n", r.Status, o.Name, o.Pos)
				} else {
					ok++
				}
				continue
			}
			if r.Status == "unsat" {
				ok++
				continue
			}
			fmt.Printf("  %-8s %s  [%s %.1fs] %s  -- %s\n", r.Status, o.Name, r.Solver, r.Seconds, o.Pos, o.Text)
			if r.Status == "sat" {
				for _, in := range o.enc.inputs {
					fmt.Printf("      %s = %s\n", in, r.Model[in])
				}
				if *verbose {
					for _, k := range sortedAtoms(r.Model) {
						fmt.Printf("        %s = %s\n", k, r.Model[k])
					}
				}
			} else if r.Status == "error" {
				fmt.Printf("      %s (%s)\n", firstLines(r.Output, 3), r.File)
			}
		}
		fmt.Printf("%s: %d/%d discharged in %.1fs\n", k, ok, len(obls), time.Since(start).Seconds())
	}
}

func contains(s, sub string) bool {
	return len(sub) == 0 || (len(s) >= len(sub) && indexOf(s, sub) >= 0)
}

func indexOf(s, sub string) int {
	for i := 0; i+len(sub) <= len(s); i++ {
		if s[i:i+len(sub)] == sub {
			return i
		}
	}
	return -1
}

func firstLines(s string, n int) string {
	out := ""
	cnt := 0
	for _, c := range s {
		if c == '\n' {
			cnt++
			if cnt >= n {
				break
			}
			out += " | "
			continue
		}
		out += string(c)
	}
	return out
}

