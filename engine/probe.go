package main

import (
	"fmt"
	"go/types"
	"math/big"
	"sort"
	"strconv"
	"strings"
)

// Model probing: instead of parsing nested datatype values out of a solver model, every
// query asks (get-value ...) for the atomic parts of each input: struct fields, the
// dynamic-type testers and scalar payloads of interfaces, lengths and the first elements
// of slices (read from the ENTRY heap), lengths and bytes of strings.  The replay builder
// assembles Go literals from these atoms.

const (
	probeSliceElems = 6
	probeStrBytes   = 40
	probeDepth      = 4
)

type prober struct {
	e     *FnEnc
	terms []string
	seen  map[string]bool
}

func (p *prober) add(t string) {
	if !p.seen[t] {
		p.seen[t] = true
		p.terms = append(p.terms, t)
	}
}

func (e *FnEnc) entryHeapName(key string) string { return key }

func (p *prober) walk(term string, t types.Type, depth int) {
	e := p.e
	if depth > probeDepth {
		return
	}
	switch u := t.Underlying().(type) {
	case *types.Basic:
		if u.Info()&types.IsString != 0 {
			p.add(fmt.Sprintf("(slen %s)", term))
			for k := 0; k < probeStrBytes; k++ {
				p.add(fmt.Sprintf("(sbyte %s %s)", term, bvLit(int64(k), 64)))
			}
			return
		}
		p.add(term)
	case *types.Pointer:
		p.add(term)
		// pointer to a struct of the verified packages: probe the fields of its target in
		// the entry heap
		if st, ok := u.Elem().Underlying().(*types.Struct); ok && isOttoType(u.Elem()) && depth < 2 {
			for i := 0; i < st.NumFields(); i++ {
				key, _ := e.fieldHeapKey(u.Elem(), i)
				if _, used := e.R.heapDecl[key]; !used {
					continue
				}
				p.walk(fmt.Sprintf("(select %s %s)", key, term), st.Field(i).Type(), depth+1)
			}
		}
	case *types.Map, *types.Chan, *types.Signature:
		p.add(term)
	case *types.Struct:
		si := e.R.structOf(t)
		for i := 0; i < u.NumFields(); i++ {
			p.walk(fmt.Sprintf("(%s %s)", si.fields[i], term), u.Field(i).Type(), depth+1)
		}
	case *types.Interface:
		p.add(fmt.Sprintf("((_ is I_nil) %s)", term))
		for _, m := range e.R.ifaceOrder {
			dt := e.R.ifaceTypes[m]
			p.add(fmt.Sprintf("((_ is I_%s) %s)", m, term))
			switch dt.Underlying().(type) {
			case *types.Basic, *types.Pointer:
				p.walk(guardedPayload(e, m, term, dt), dt, depth+1)
			}
		}
	case *types.Slice:
		p.add(fmt.Sprintf("(sl-len %s)", term))
		p.add(fmt.Sprintf("(sl-ref %s)", term))
		key, sortS := e.elemHeapKey(u.Elem())
		if _, ok := e.R.heapDecl[key]; !ok {
			_ = sortS
			return // element heap never used by the query: contents irrelevant
		}
		for k := 0; k < probeSliceElems; k++ {
			el := fmt.Sprintf("(select (select %s (sl-ref %s)) (bvadd (sl-off %s) %s))", key, term, term, bvLit(int64(k), 64))
			p.walk(el, u.Elem(), depth+1)
		}
	}
}

// probeTerms lists the get-value terms for all inputs of the function.
func (e *FnEnc) probeTerms() []string {
	p := &prober{e: e, seen: map[string]bool{}}
	for i, in := range e.inputs {
		p.add(in)
		p.walk(in, e.inputTypes[i], 0)
	}
	return p.terms
}

// ---------------------------------------------------------------------------
// building Go literals from probed atoms
// ---------------------------------------------------------------------------

type builder struct {
	e     *FnEnc
	m     map[string]string
	pkg   string
	notes []string
	// adapters used (pointer values that cannot be taken from the model)
	adapted map[string]bool
	pre     []string // statements to run before the inputs are built
	imports map[string]bool
}

func (b *builder) typeStr(t types.Type) string {
	return types.TypeString(t, func(p *types.Package) string {
		if p.Name() == b.pkg {
			return ""
		}
		// the literal names a type of another package: the injected file must import it
		// (the template already imports a few standard packages under their own names)
		switch p.Path() {
		case "encoding/json", "fmt", "math", "os", "reflect", "runtime":
		default:
			if b.imports != nil {
				b.imports[p.Path()] = true
			}
		}
		return p.Name()
	})
}

func (b *builder) atom(term string) (string, bool) {
	v, ok := b.m[term]
	return v, ok
}

func (b *builder) build(term string, t types.Type, depth int) (string, error) {
	e := b.e
	tn := b.typeStr(t)
	if depth > probeDepth+1 {
		return "", fmt.Errorf("value too deep")
	}
	switch u := t.Underlying().(type) {
	case *types.Basic:
		switch {
		case u.Info()&types.IsString != 0:
			lv, ok := b.atom(fmt.Sprintf("(slen %s)", term))
			if !ok {
				return "", fmt.Errorf("no length for string %s", term)
			}
			n, _, ok := parseBV(lv)
			if !ok || n.Sign() < 0 || n.Cmp(big.NewInt(probeStrBytes)) > 0 {
				return "", fmt.Errorf("string longer than %d bytes in model", probeStrBytes)
			}
			var bs []byte
			for k := int64(0); k < n.Int64(); k++ {
				bv, ok := b.atom(fmt.Sprintf("(sbyte %s %s)", term, bvLit(k, 64)))
				if !ok {
					return "", fmt.Errorf("no byte")
				}
				x, _, _ := parseBV(bv)
				bs = append(bs, byte(x.Uint64()))
			}
			return tn + "(" + strconv.Quote(string(bs)) + ")", nil
		case u.Kind() == types.Bool:
			v, ok := b.atom(term)
			if !ok {
				return "", fmt.Errorf("no value for %s", term)
			}
			return tn + "(" + v + ")", nil
		case u.Info()&types.IsInteger != 0:
			v, ok := b.atom(term)
			if !ok {
				return "", fmt.Errorf("no value for %s", term)
			}
			x, bits, ok := parseBV(v)
			if !ok {
				return "", fmt.Errorf("bad bv %q", v)
			}
			if u.Info()&types.IsUnsigned == 0 && x.Bit(bits-1) == 1 {
				x = new(big.Int).Sub(x, new(big.Int).Lsh(big.NewInt(1), uint(bits)))
			}
			return fmt.Sprintf("%s(%s)", tn, x.String()), nil
		case u.Kind() == types.Float64:
			v, _ := b.atom(term)
			bits, ok := parseFP(v, 11, 53)
			if !ok {
				return "", fmt.Errorf("bad fp %q", v)
			}
			return fmt.Sprintf("%s(math.Float64frombits(0x%016x))", tn, bits), nil
		case u.Kind() == types.Float32:
			v, _ := b.atom(term)
			bits, ok := parseFP(v, 8, 24)
			if !ok {
				return "", fmt.Errorf("bad fp %q", v)
			}
			return fmt.Sprintf("%s(math.Float32frombits(0x%08x))", tn, bits), nil
		}
	case *types.Struct:
		si := e.R.structOf(t)
		var fs []string
		for i := 0; i < u.NumFields(); i++ {
			l, err := b.build(fmt.Sprintf("(%s %s)", si.fields[i], term), u.Field(i).Type(), depth+1)
			if err != nil {
				return "", fmt.Errorf("field %s: %v", u.Field(i).Name(), err)
			}
			fs = append(fs, u.Field(i).Name()+": "+l)
		}
		return tn + "{" + strings.Join(fs, ", ") + "}", nil
	case *types.Interface:
		if v, _ := b.atom(fmt.Sprintf("((_ is I_nil) %s)", term)); v == "true" {
			return "nil", nil
		}
		if u.NumMethods() > 0 {
			// non-empty interface: only the error interface has a generic stand-in
			if typeName(t) == "error" {
				b.imports["errors"] = true
				b.notes = append(b.notes, "non-nil error value replaced by errors.New (adapter)")
				return `errors.New("verif")`, nil
			}
			return "", fmt.Errorf("value of interface type %s needs a replay adapter", tn)
		}
		for _, m := range e.R.ifaceOrder {
			if v, _ := b.atom(fmt.Sprintf("((_ is I_%s) %s)", m, term)); v == "true" {
				dt := e.R.ifaceTypes[m]
				l, err := b.build(guardedPayload(e, m, term, dt), dt, depth+1)
				if err != nil {
					return "", err
				}
				return "interface{}(" + l + ")", nil
			}
		}
		return "", fmt.Errorf("dynamic type outside the modelled set")
	case *types.Pointer:
		v, _ := b.atom(term)
		if v == "0" {
			return "(" + tn + ")(nil)", nil
		}
		if l, err := b.adapter(t, tn); err == nil {
			return l, nil
		}
		if st, ok := u.Elem().Underlying().(*types.Struct); ok && isOttoType(u.Elem()) && depth < 2 {
			var fs []string
			for i := 0; i < st.NumFields(); i++ {
				key, _ := e.fieldHeapKey(u.Elem(), i)
				if _, used := e.R.heapDecl[key]; !used {
					continue // field never read by the query: zero value
				}
				l, err := b.build(fmt.Sprintf("(select %s %s)", key, term), st.Field(i).Type(), depth+1)
				if err != nil {
					return "", fmt.Errorf("field %s of *%s: %v", st.Field(i).Name(), b.typeStr(u.Elem()), err)
				}
				fs = append(fs, st.Field(i).Name()+": "+l)
			}
			b.notes = append(b.notes, "object behind "+tn+" rebuilt from the entry heap of the model (aliasing between pointers not reproduced)")
			return "&" + b.typeStr(u.Elem()) + "{" + strings.Join(fs, ", ") + "}", nil
		}
		return b.adapter(t, tn)
	case *types.Map, *types.Chan, *types.Signature:
		v, _ := b.atom(term)
		if v == "0" {
			return "(" + tn + ")(nil)", nil
		}
		return b.adapter(t, tn)
	case *types.Slice:
		lv, ok := b.atom(fmt.Sprintf("(sl-len %s)", term))
		if !ok {
			return "", fmt.Errorf("no slice length")
		}
		n, _, _ := parseBV(lv)
		rv, _ := b.atom(fmt.Sprintf("(sl-ref %s)", term))
		if n.Sign() == 0 {
			if rv == "0" {
				return tn + "(nil)", nil
			}
			return tn + "{}", nil
		}
		if n.Cmp(big.NewInt(probeSliceElems)) > 0 {
			return "", fmt.Errorf("slice longer than %d in model", probeSliceElems)
		}
		key, _ := e.elemHeapKey(u.Elem())
		var els []string
		for k := int64(0); k < n.Int64(); k++ {
			el := fmt.Sprintf("(select (select %s (sl-ref %s)) (bvadd (sl-off %s) %s))", key, term, term, bvLit(k, 64))
			var l string
			var err error
			if _, used := e.R.heapDecl[key]; !used {
				l = b.typeStr(u.Elem()) + "{}"
				if _, isStruct := u.Elem().Underlying().(*types.Struct); !isStruct {
					l = "*new(" + b.typeStr(u.Elem()) + ")"
				}
			} else {
				l, err = b.build(el, u.Elem(), depth+1)
			}
			if err != nil {
				return "", fmt.Errorf("element %d: %v", k, err)
			}
			els = append(els, l)
		}
		return tn + "{" + strings.Join(els, ", ") + "}", nil
	}
	return "", fmt.Errorf("no literal for type %s", tn)
}

// adapter: references whose target cannot be taken from the model are replaced by a
// fresh, well-formed object built through otto's own constructors.  The replay then only
// counts if the obligation fails on the real outputs, so an adapter can make a
// counterexample unreproducible but never produces a false violation for postconditions;
// for safety obligations the panic must be a Go run-time error inside the function.
func (b *builder) adapter(t types.Type, tn string) (string, error) {
	if b.adapted == nil {
		b.adapted = map[string]bool{}
	}
	switch typeName(t) {
	case "*otto.runtime":
		b.need("vrt")
		return "vrt", nil
	case "*otto.Otto":
		b.need("vrt")
		return "vrt.otto", nil
	case "*otto.object":
		b.need("vrt")
		return "vrt.newObject()", nil
	case "*ast.Comments":
		b.imports["github.com/robertkrimen/otto/ast"] = true
		return "ast.NewComments()", nil
	case "*file.File":
		b.imports["github.com/robertkrimen/otto/file"] = true
		return `file.NewFile("", "", 1)`, nil
	case "*bytes.Buffer":
		b.imports["bytes"] = true
		return "new(bytes.Buffer)", nil
	}
	return "", fmt.Errorf("reference value of type %s needs a replay adapter", tn)
}

func (b *builder) need(what string) {
	if b.adapted[what] {
		return
	}
	b.adapted[what] = true
	switch what {
	case "vrt":
		b.pre = append(b.pre, "vrt := New().runtime")
		b.notes = append(b.notes, "pointers to runtime/objects replaced by a fresh runtime and fresh objects (adapter)")
	}
}

func sortedAtoms(m map[string]string) []string {
	var ks []string
	for k := range m {
		ks = append(ks, k)
	}
	sort.Strings(ks)
	return ks
}

// guardedPayload reads an interface payload only when the tester holds (cvc5 refuses to
// evaluate a selector applied to the wrong constructor).
func guardedPayload(e *FnEnc, m, term string, dt types.Type) string {
	return fmt.Sprintf("(ite ((_ is I_%s) %s) (v_%s %s) %s)", m, term, m, term, e.zeroValue(dt))
}
