package main

import (
	"fmt"
	"go/constant"
	"go/token"
	"go/types"

	"golang.org/x/tools/go/ssa"
)

// Library models.  Each entry is an ASSUMED contract of a function outside otto, taken
// from the sentence of the Go documentation quoted next to it.  Every model that is
// used by a query is listed in the evidence as an unchecked assumption.

func (f *frame) libCall(callee *ssa.Function, c *ssa.CallCommon, base string, resT types.Type, pos token.Pos) SV {
	e := f.enc
	pkg := ""
	if callee.Pkg != nil {
		pkg = callee.Pkg.Pkg.Path()
	}
	name := pkg + "." + callee.Name()
	if recv := callee.Signature.Recv(); recv != nil {
		name = pkg + ".(" + typeName(recv.Type()) + ")." + callee.Name()
	}
	if top := e.top; top != nil && top.contract != nil && len(top.contract.AtCalls) > 0 && !f.inLibNote {
		var as []SV
		for _, a := range c.Args {
			as = append(as, f.get(a))
		}
		f.atCallObligations(name, as, pos)
	}
	if top := e.top; top != nil && top.contract != nil && len(top.contract.Calls) > 0 && !f.inLibNote {
		// ghost events of "calls pkg.F(...)" clauses
		var as []SV
		for _, a := range c.Args {
			as = append(as, f.get(a))
		}
		if matches := f.noteCall(name, as); len(matches) > 0 {
			f.inLibNote = true
			res := f.libCall(callee, c, base, resT, pos)
			f.inLibNote = false
			f.noteCallResult(matches, res)
			return res
		}
	}
	arg := func(i int) string { return f.scalar(c.Args[i]) }
	f64 := types.Typ[types.Float64]
	ret := func(t string) SV { return SV{t: resT, term: e.define(base, e.R.sortOf(resT), t)} }
	used := func(doc string) { e.note("assume_lib " + name + ": " + doc) }
	switch name {
	case "math.IsNaN":
		used("IsNaN reports whether f is an IEEE 754 'not-a-number' value")
		return ret(fmt.Sprintf("(fp.isNaN %s)", arg(0)))
	case "math.IsInf":
		used("IsInf reports whether f is an infinity, according to sign (>0 +Inf, <0 -Inf, 0 either)")
		s := arg(1)
		x := arg(0)
		return ret(fmt.Sprintf("(and (fp.isInfinite %s) (or (= %s #x0000000000000000) (and (bvsgt %s #x0000000000000000) (fp.isPositive %s)) (and (bvslt %s #x0000000000000000) (fp.isNegative %s))))", x, s, s, x, s, x))
	case "math.NaN":
		used("NaN returns an IEEE 754 not-a-number value")
		return ret("(_ NaN 11 53)")
	case "math.Inf":
		used("Inf returns positive infinity if sign >= 0, negative infinity if sign < 0")
		return ret(fmt.Sprintf("(ite (bvsge %s #x0000000000000000) (_ +oo 11 53) (_ -oo 11 53))", arg(0)))
	case "math.Floor":
		used("Floor returns the greatest integer value less than or equal to x (±0, ±Inf, NaN preserved)")
		return ret(fmt.Sprintf("(fp.roundToIntegral RTN %s)", arg(0)))
	case "math.Ceil":
		used("Ceil returns the least integer value greater than or equal to x")
		return ret(fmt.Sprintf("(fp.roundToIntegral RTP %s)", arg(0)))
	case "math.Modf":
		used("Modf returns integer and fractional floating-point numbers that sum to f, both with the sign of f; Modf(±Inf) = ±Inf, NaN; Modf(NaN) = NaN, NaN")
		x := arg(0)
		r := f.resultHavoc(base, resT)
		ip, fr := r.tuple[0].term, r.tuple[1].term
		f.assume(fmt.Sprintf("(ite (fp.isNaN %s) (and (fp.isNaN %s) (fp.isNaN %s)) (ite (fp.isInfinite %s) (and (= %s %s) (fp.isNaN %s)) (and (= %s (fp.roundToIntegral RTZ %s)) (fp.eq %s (fp.sub RNE %s (fp.roundToIntegral RTZ %s))) (= (fp.isNegative %s) (fp.isNegative %s)))))",
			x, ip, fr, x, ip, x, fr, ip, x, fr, x, x, fr, x))
		return r
	case "math.Trunc":
		used("Trunc returns the integer value of x")
		return ret(fmt.Sprintf("(fp.roundToIntegral RTZ %s)", arg(0)))
	case "math.RoundToEven":
		used("RoundToEven returns the nearest integer, rounding ties to even")
		return ret(fmt.Sprintf("(fp.roundToIntegral RNE %s)", arg(0)))
	case "math.Round":
		used("Round returns the nearest integer, rounding half away from zero")
		return ret(fmt.Sprintf("(fp.roundToIntegral RNA %s)", arg(0)))
	case "math.Abs":
		used("Abs returns the absolute value of x")
		return ret(fmt.Sprintf("(fp.abs %s)", arg(0)))
	case "math.Sqrt":
		used("Sqrt returns the correctly rounded square root (IEEE 754)")
		return ret(fmt.Sprintf("(fp.sqrt RNE %s)", arg(0)))
	case "math.Signbit":
		used("Signbit reports whether x is negative or negative zero (NaN: sign bit, modelled as one unknown bit shared by all NaNs)")
		x := arg(0)
		return ret(fmt.Sprintf("(= ((_ extract 63 63) %s) #b1)", e.floatBits(x)))
	case "math.Copysign":
		used("Copysign returns a value with the magnitude of f and the sign of sign")
		x, s := arg(0), arg(1)
		neg := fmt.Sprintf("(= ((_ extract 63 63) %s) #b1)", e.floatBits(s))
		return ret(fmt.Sprintf("(ite %s (fp.neg (fp.abs %s)) (fp.abs %s))", neg, x, x))
	case "math.Max", "math.Min":
		x, y := arg(0), arg(1)
		if callee.Name() == "Max" {
			used("Max(x,+Inf)=Max(+Inf,x)=+Inf; Max(x,NaN)=Max(NaN,x)=NaN; Max(+0,±0)=Max(±0,+0)=+0; Max(-0,-0)=-0; else the larger")
			return ret(fmt.Sprintf("(ite (or (fp.isNaN %s) (fp.isNaN %s)) (_ NaN 11 53) (ite (and (fp.isZero %s) (fp.isZero %s)) (ite (and (fp.isNegative %s) (fp.isNegative %s)) %s (_ +zero 11 53)) (ite (fp.gt %s %s) %s %s)))", x, y, x, y, x, y, x, x, y, x, y))
		}
		used("Min(x,-Inf)=Min(-Inf,x)=-Inf; Min(x,NaN)=Min(NaN,x)=NaN; Min(-0,±0)=Min(±0,-0)=-0; else the smaller")
		return ret(fmt.Sprintf("(ite (or (fp.isNaN %s) (fp.isNaN %s)) (_ NaN 11 53) (ite (and (fp.isZero %s) (fp.isZero %s)) (ite (or (fp.isNegative %s) (fp.isNegative %s)) (_ -zero 11 53) (_ +zero 11 53)) (ite (fp.lt %s %s) %s %s)))", x, y, x, y, x, y, x, y, x, y))
	case "math.Float64bits":
		used("Float64bits returns the IEEE 754 binary representation of f")
		return SV{t: resT, term: e.floatBits(arg(0))}
	case "math.Float64frombits":
		used("Float64frombits returns the floating-point number corresponding to the IEEE 754 binary representation b")
		return ret(fmt.Sprintf("((_ to_fp 11 53) %s)", arg(0)))
	case "math.Mod":
		if c, ok := c.Args[1].(*ssa.Const); ok && c.Value != nil {
			if y, _ := constant.Float64Val(c.Value); y >= 1 && y <= 1<<62 && float64(int64(y)) == y && int64(y)&(int64(y)-1) == 0 {
				used("Mod(x, 2^k) = x - 2^k*trunc(x/2^k) (C fmod; every step is exact in binary floating point), sign of x; NaN for x = ±Inf or NaN")
				x := arg(0)
				yl := fpLit(y, "Float64")
				r := fmt.Sprintf("(fp.sub RNE %s (fp.mul RNE (fp.roundToIntegral RTZ (fp.div RNE %s %s)) %s))", x, x, yl, yl)
				return ret(fmt.Sprintf("(ite (or (fp.isNaN %s) (fp.isInfinite %s)) (_ NaN 11 53) (ite (fp.isZero %s) (ite (fp.isNegative %s) (_ -zero 11 53) (_ +zero 11 53)) %s))", x, x, r, x, r))
			}
		}
		used("Mod returns the floating-point remainder of x/y (C fmod): fp.rem is NOT fmod, so only the documented special cases are assumed: NaN if x is Inf/NaN or y is 0/NaN; x if y is Inf and x finite; magnitude < |y|, sign of x")
		x, y := arg(0), arg(1)
		r := f.resultHavoc(base, f64)
		f.assume(fmt.Sprintf("(=> (or (fp.isInfinite %s) (fp.isNaN %s) (fp.isNaN %s) (fp.isZero %s)) (fp.isNaN %s))", x, x, y, y, r.term))
		f.assume(fmt.Sprintf("(=> (and (fp.isInfinite %s) (not (fp.isInfinite %s)) (not (fp.isNaN %s))) (= %s %s))", y, x, x, r.term, x))
		f.assume(fmt.Sprintf("(=> (not (or (fp.isInfinite %s) (fp.isNaN %s) (fp.isNaN %s) (fp.isZero %s))) (and (not (fp.isNaN %s)) (not (fp.isInfinite %s)) (fp.leq (fp.abs %s) (fp.abs %s)) (= (fp.isNegative %s) (fp.isNegative %s))))", x, x, y, y, r.term, r.term, r.term, x, r.term, x))
		return r
	case "unicode/utf8.DecodeRuneInString":
		used("DecodeRuneInString: empty -> (RuneError, 0); invalid encoding -> (RuneError, 1); else the rune and its width 1..4, width <= len(s)")
		s := arg(0)
		r := f.resultHavoc(base, resT)
		rn, w := r.tuple[0].term, r.tuple[1].term
		f.assume(fmt.Sprintf("(ite (= (slen %s) #x0000000000000000) (and (= %s #x0000fffd) (= %s #x0000000000000000)) (and (bvsle #x0000000000000001 %s) (bvsle %s #x0000000000000004) (bvsle %s (slen %s)) (bvsle #x00000000 %s) (bvsle %s #x0010ffff)))", s, rn, w, w, w, w, s, rn, rn))
		f.assume(fmt.Sprintf("(=> (and (not (= (slen %s) #x0000000000000000)) (bvult (sbyte %s #x0000000000000000) #x80)) (and (= %s #x0000000000000001) (= %s ((_ zero_extend 24) (sbyte %s #x0000000000000000)))))", s, s, w, rn, s))
		f.assume(fmt.Sprintf("(=> (and (not (= (slen %s) #x0000000000000000)) (bvuge (sbyte %s #x0000000000000000) #x80)) (bvsge %s #x00000080))", s, s, rn))
		return r
	case "unicode/utf8.EncodeRune":
		used("EncodeRune writes the UTF-8 encoding of the rune into p and returns the number of bytes written, 1..4 (p must be large enough: not modelled)")
		w := map[string]bool{}
		k, _ := e.elemHeapKey(types.Typ[types.Uint8])
		w[k] = true
		f.escape(c.Args[0])
		f.havocKeys(w)
		r := f.resultHavoc(base, resT)
		f.assume(fmt.Sprintf("(and (bvsle #x0000000000000001 %s) (bvsle %s #x0000000000000004))", r.term, r.term))
		return r
	case "time.(time.Time).Nanosecond", "time.(time.Time).Second", "time.(time.Time).Minute", "time.(time.Time).Hour", "time.(time.Time).Day", "time.(time.Time).Month":
		lo, hi := int64(0), int64(0)
		switch callee.Name() {
		case "Nanosecond":
			used("Nanosecond returns the nanosecond offset within the second, in the range [0, 999999999]")
			hi = 999999999
		case "Second":
			used("Second returns the second offset within the minute, in the range [0, 59]")
			hi = 59
		case "Minute":
			used("Minute returns the minute offset within the hour, in the range [0, 59]")
			hi = 59
		case "Hour":
			used("Hour returns the hour within the day, in the range [0, 23]")
			hi = 23
		case "Day":
			used("Day returns the day of the month (1..31)")
			lo, hi = 1, 31
		case "Month":
			used("Month returns the month of the year (January = 1 .. December = 12)")
			lo, hi = 1, 12
		}
		r := f.resultHavoc(base, resT)
		f.assume(fmt.Sprintf("(and (bvsle %s %s) (bvsle %s %s))", bvLit(lo, 64), r.term, r.term, bvLit(hi, 64)))
		return r
	case "unicode/utf8.RuneLen":
		used("RuneLen returns the number of bytes (1..4) in the UTF-8 encoding of the rune, or -1 if invalid")
		r := f.resultHavoc(base, resT)
		f.assume(fmt.Sprintf("(or (= %s #xffffffffffffffff) (and (bvsle #x0000000000000001 %s) (bvsle %s #x0000000000000004)))", r.term, r.term, r.term))
		return r
	case "unicode/utf8.RuneCountInString":
		used("RuneCountInString: number of runes, between 0 and len(s)")
		r := f.resultHavoc(base, resT)
		f.assume(fmt.Sprintf("(and (bvsle #x0000000000000000 %s) (bvsle %s (slen %s)) (=> (bvsgt (slen %s) #x0000000000000000) (bvsgt %s #x0000000000000000)))", r.term, r.term, arg(0), arg(0), r.term))
		return r
	case "strings.Index", "strings.LastIndex", "strings.IndexByte", "strings.IndexRune", "strings.LastIndexByte", "strings.IndexAny":
		used("returns the byte index of an occurrence in s, or -1: -1 <= result <= len(s) - (len(substr) if string); a fixed function of its arguments")
		r := f.resultHavoc(base, resT)
		if (callee.Name() == "Index" || callee.Name() == "LastIndex") && e.R.sortOf(c.Args[1].Type()) == "Str" {
			// deterministic: the same logical function that contracts name as strings.Index(s, t)
			fn := "lib!strings." + callee.Name()
			e.R.extra(fmt.Sprintf("(declare-fun %s (Str Str) (_ BitVec 64))", fn))
			r = SV{t: resT, term: e.define(base, e.R.sortOf(resT), fmt.Sprintf("(%s %s %s)", fn, arg(0), arg(1)))}
		}
		s := arg(0)
		sub := "#x0000000000000000"
		if e.R.sortOf(c.Args[1].Type()) == "Str" && callee.Name() != "IndexAny" {
			sub = fmt.Sprintf("(slen %s)", arg(1))
		}
		f.assume(fmt.Sprintf("(or (= %s #xffffffffffffffff) (and (bvsle #x0000000000000000 %s) (bvsle %s (slen %s)) (bvsle %s (bvsub (slen %s) %s))))", r.term, r.term, sub, s, r.term, s, sub))
		return r
	case "strings.Count":
		used("Count: number of non-overlapping instances, 0 <= n <= len(s)+1")
		r := f.resultHavoc(base, resT)
		f.assume(fmt.Sprintf("(and (bvsle #x0000000000000000 %s) (bvsle %s (bvadd (slen %s) #x0000000000000001)))", r.term, r.term, arg(0)))
		return r
	case "strings.ContainsRune":
		if cs, ok := c.Args[0].(*ssa.Const); ok && cs.Value != nil {
			lit := constant.StringVal(cs.Value)
			ascii := true
			for _, r := range lit {
				if r >= 0x80 {
					ascii = false
				}
			}
			if ascii {
				used("ContainsRune reports whether the Unicode code point r is within s (s constant ASCII: a finite disjunction)")
				var ds []string
				for _, r := range lit {
					ds = append(ds, fmt.Sprintf("(= %s %s)", arg(1), bvLit(int64(r), 32)))
				}
				return ret(or(ds...))
			}
		}
		used("pure predicate on strings (result not modelled)")
		return f.resultHavoc(base, resT)
	case "math.Pow":
		used("Pow special cases used: Pow(x, ±0) = 1 for any x; Pow(1, y) = 1 for any y; Pow(x, NaN) = NaN for x != 1; Pow(NaN, y) = NaN for y != 0; otherwise unconstrained")
		x, y := arg(0), arg(1)
		r := f.resultHavoc(base, resT)
		one := fpLit(1, "Float64")
		f.assume(fmt.Sprintf("(=> (fp.isZero %s) (= %s %s))", y, r.term, one))
		f.assume(fmt.Sprintf("(=> (fp.eq %s %s) (= %s %s))", x, one, r.term, one))
		f.assume(fmt.Sprintf("(=> (and (fp.isNaN %s) (not (fp.eq %s %s))) (fp.isNaN %s))", y, x, one, r.term))
		f.assume(fmt.Sprintf("(=> (and (fp.isNaN %s) (not (fp.isZero %s))) (fp.isNaN %s))", x, y, r.term))
		return r
	case "strings.HasPrefix", "strings.HasSuffix", "strings.Contains", "strings.ContainsAny", "strings.EqualFold":
		used("pure predicate on strings (result not modelled)")
		r := f.resultHavoc(base, resT)
		if callee.Name() == "HasPrefix" || callee.Name() == "HasSuffix" {
			f.assume(fmt.Sprintf("(=> %s (bvsle (slen %s) (slen %s)))", r.term, arg(1), arg(0)))
		}
		return r
	case "strings.ToLower", "strings.ToUpper", "strings.TrimSpace", "strings.Trim", "strings.TrimLeft", "strings.TrimRight",
		"strings.TrimPrefix", "strings.TrimSuffix", "strings.Repeat", "strings.Replace", "strings.ReplaceAll", "strings.Join", "strings.Title":
		used("pure string function (result contents not modelled)")
		r := f.resultHavoc(base, resT)
		switch callee.Name() {
		case "TrimSpace", "Trim", "TrimLeft", "TrimRight", "TrimPrefix", "TrimSuffix":
			f.assume(fmt.Sprintf("(bvsle (slen %s) (slen %s))", r.term, arg(0)))
		}
		return r
	case "strconv.Itoa", "strconv.FormatInt", "strconv.FormatUint":
		used("Itoa/FormatInt/FormatUint return a non-empty string that is \"0\" exactly for 0; in base 10 it starts with a digit or '-' and determines the number (decimalOf(result) = number; result otherwise not modelled)")
		r := f.resultHavoc(base, resT)
		b0 := fmt.Sprintf("(sbyte %s #x0000000000000000)", r.term)
		f.assume(fmt.Sprintf("(bvugt (slen %s) #x0000000000000000)", r.term))
		base10 := "true"
		if callee.Name() != "Itoa" {
			base10 = fmt.Sprintf("(= %s %s)", arg(1), bvLit(10, 64))
		}
		f.assume(fmt.Sprintf("(=> %s (or (= %s #x2d) (and (bvuge %s #x30) (bvule %s #x39))))", base10, b0, b0, b0))
		// the numeral is "0" exactly for the number zero
		f.assume(fmt.Sprintf("(= (= %s %s) (= %s %s))", r.term, e.R.strConst("0"), arg(0), bvLit(0, bitsOfSort(e.R.sortOf(c.Args[0].Type())))))
		// decimal numerals are distinct for distinct numbers
		e.R.extra("(declare-fun decimal-of (Str) (_ BitVec 64))")
		f.assume(fmt.Sprintf("(=> %s (= (decimal-of %s) %s))", base10, r.term, arg(0)))
		return r
	case "strconv.FormatFloat", "strconv.Quote", "strconv.FormatBool":
		used("pure formatting function (result contents not modelled; non-empty)")
		r := f.resultHavoc(base, resT)
		f.assume(fmt.Sprintf("(bvsgt (slen %s) #x0000000000000000)", r.term))
		return r
	case "strconv.ParseInt", "strconv.Atoi":
		used("ParseInt/Atoi: pure; when no error is returned and the text does not start with '-', the value is >= 0 (value otherwise not modelled)")
		r := f.resultHavoc(base, resT)
		if len(r.tuple) == 2 {
			sArg := arg(0)
			f.assume(fmt.Sprintf("(=> (and (= %s I_nil) (bvugt (slen %s) #x0000000000000000) (not (= (sbyte %s #x0000000000000000) #x2d))) (bvsge %s %s))",
				r.tuple[1].term, sArg, sArg, r.tuple[0].term, bvLit(0, bitsOfSort(e.R.sortOf(r.tuple[0].t)))))
		}
		return r
	case "encoding/hex.DecodeString":
		used("DecodeString returns len(s)/2 bytes when it returns no error (contents not modelled)")
		r := f.resultHavoc(base, resT)
		if len(r.tuple) == 2 {
			f.assume(fmt.Sprintf("(=> (= %s I_nil) (= (sl-len %s) (bvsdiv (slen %s) #x0000000000000002)))", r.tuple[1].term, r.tuple[0].term, arg(0)))
		}
		return r
	case "strconv.ParseUint", "strconv.ParseFloat", "strconv.ParseBool", "strconv.Unquote":
		used("pure parsing function (value, error) – result not modelled")
		return f.resultHavoc(base, resT)
	case "unicode.IsLetter", "unicode.IsDigit", "unicode.IsSpace", "unicode.IsUpper", "unicode.IsLower", "unicode.In", "unicode.Is",
		"unicode.ToLower", "unicode.ToUpper", "unicode/utf8.ValidRune", "unicode/utf8.ValidString", "unicode/utf16.IsSurrogate",
		"unicode/utf16.DecodeRune", "unicode/utf16.EncodeRune", "unicode/utf8.RuneError":
		used("pure function of its arguments (result not modelled)")
		return f.resultHavoc(base, resT)
	case "reflect.ValueOf":
		used("ValueOf returns a Value initialized to the concrete value stored in the interface; Int/Uint/Float/Bool/Kind of it return that value (widened) and its kind")
		return f.reflectValueOf(c, base, resT)
	case "reflect.(reflect.Value).Int", "reflect.(reflect.Value).Uint", "reflect.(reflect.Value).Float", "reflect.(reflect.Value).Bool", "reflect.(reflect.Value).Kind":
		used("accessor of reflect.Value (panics if the kind does not fit: not modelled as an obligation)")
		rv := e.R.sortOf(c.Args[0].Type())
		fnm := map[string]string{"Int": "rv-int", "Uint": "rv-uint", "Float": "rv-float", "Bool": "rv-bool", "Kind": "rv-kind"}[callee.Name()]
		e.R.extra(fmt.Sprintf("(declare-fun %s (%s) %s)", fnm, rv, e.R.sortOf(resT)))
		return ret(fmt.Sprintf("(%s %s)", fnm, arg(0)))
	case "reflect.Zero":
		used("Zero returns a Value representing the zero value of the type (its Kind is the type's Kind)")
		rv := e.R.sortOf(resT)
		e.declareReflect(rv)
		r := f.resultHavoc(base, resT)
		f.assume(fmt.Sprintf("(= (rv-kind %s) (rt-kind %s))", r.term, arg(0)))
		return r
	case "reflect.(reflect.Value).OverflowInt", "reflect.(reflect.Value).OverflowUint", "reflect.(reflect.Value).OverflowFloat":
		used("OverflowInt/OverflowUint/OverflowFloat report whether the argument cannot be represented by the Value's type (bit size of its kind; Float32: MaxFloat32 < |x| <= MaxFloat64)")
		rv := e.R.sortOf(c.Args[0].Type())
		e.declareReflect(rv)
		k := fmt.Sprintf("(rv-kind %s)", arg(0))
		switch callee.Name() {
		case "OverflowInt":
			return ret(not(fitsSigned(k, arg(1))))
		case "OverflowUint":
			return ret(not(fitsUnsigned(k, arg(1))))
		default:
			x := arg(1)
			maxF32 := "((_ to_fp 11 53) RNE (fp #b0 #xfe #b11111111111111111111111))"
			return ret(fmt.Sprintf("(and (= %s %s) (fp.lt %s (fp.abs %s)) (not (fp.isInfinite %s)) (not (fp.isNaN %s)))", k, bvLit(rkFloat32, 64), maxF32, x, x, x))
		}
	case "reflect.(reflect.Value).Convert":
		used("Convert returns the value converted to the type by Go's conversion rules: integer kinds keep the low bits of the size of the target kind (sign- or zero-extended back), integer to float rounds to nearest, float64 to float32 rounds to nearest")
		rv := e.R.sortOf(resT)
		e.declareReflect(rv)
		src := arg(0)
		r := f.resultHavoc(base, resT)
		tk := fmt.Sprintf("(rt-kind %s)", arg(1))
		sk := fmt.Sprintf("(rv-kind %s)", src)
		srcSigned := kindIn(sk, rkInt, rkInt64)
		srcUnsigned := kindIn(sk, rkUint, rkUintptr)
		srcFloat := kindIn(sk, rkFloat32, rkFloat64)
		srcBits := fmt.Sprintf("(ite %s (rv-int %s) (rv-uint %s))", srcSigned, src, src)
		wrap := func(signed bool) string {
			ext := func(bits int) string {
				lowb := fmt.Sprintf("((_ extract %d 0) %s)", bits-1, srcBits)
				if signed {
					return sext(lowb, bits, 64)
				}
				return zext(lowb, bits, 64)
			}
			is := func(ns ...int64) string {
				var cs []string
				for _, n := range ns {
					cs = append(cs, fmt.Sprintf("(= %s %s)", tk, bvLit(n, 64)))
				}
				return or(cs...)
			}
			return fmt.Sprintf("(ite %s %s (ite %s %s (ite %s %s %s)))", is(rkInt8, rkUint8), ext(8), is(rkInt16, rkUint16), ext(16), is(rkInt32, rkUint32), ext(32), srcBits)
		}
		srcAsFloat := fmt.Sprintf("(ite %s (rv-float %s) (ite %s ((_ to_fp 11 53) RNE %s) ((_ to_fp_unsigned 11 53) RNE %s)))", srcFloat, src, srcSigned, srcBits, srcBits)
		f.assume(and(
			fmt.Sprintf("(= (rv-kind %s) %s)", r.term, tk),
			implies(and(kindIn(tk, rkInt, rkInt64), or(srcSigned, srcUnsigned)), fmt.Sprintf("(= (rv-int %s) %s)", r.term, wrap(true))),
			implies(and(kindIn(tk, rkUint, rkUintptr), or(srcSigned, srcUnsigned)), fmt.Sprintf("(= (rv-uint %s) %s)", r.term, wrap(false))),
			implies(fmt.Sprintf("(= %s %s)", tk, bvLit(rkFloat64, 64)), fmt.Sprintf("(= (rv-float %s) %s)", r.term, srcAsFloat)),
			implies(fmt.Sprintf("(= %s %s)", tk, bvLit(rkFloat32, 64)), fmt.Sprintf("(= (rv-float %s) ((_ to_fp 11 53) RNE ((_ to_fp 8 24) RNE %s)))", r.term, srcAsFloat)),
		))
		return r
	case "reflect.(reflect.Value).Type":
		used("Value.Type returns the (non-nil) type of a valid Value (panics on the zero Value: not modelled)")
		r := f.resultHavoc(base, resT)
		f.assume(fmt.Sprintf("(not (= %s I_nil))", r.term))
		return r
	case "reflect.(reflect.Value).Interface":
		used("Interface returns the current value as an interface{} (ValueOf of it is the same value)")
		rv := e.R.sortOf(c.Args[0].Type())
		e.declareReflect(rv)
		r := f.resultHavoc(base, resT)
		f.assume(fmt.Sprintf("(= (rv-of %s) %s)", r.term, arg(0)))
		return r
	case "regexp.(*regexp.Regexp).FindStringSubmatchIndex", "regexp.(*regexp.Regexp).FindSubmatchIndex", "regexp.(*regexp.Regexp).FindStringIndex", "regexp.(*regexp.Regexp).FindIndex":
		used("Find*Index return nil for no match, else index pairs: an even number (>= 2) of ints, the first pair the match with 0 <= loc[0] <= loc[1] <= len(s)")
		r := f.resultHavoc(base, resT)
		ln := fmt.Sprintf("(sl-len %s)", r.term)
		key, srt := e.elemHeapKey(types.Typ[types.Int])
		arr := fmt.Sprintf("(select %s (sl-ref %s))", e.heapGet(f.curHeap, key, srt), r.term)
		at := func(i int) string { return fmt.Sprintf("(select %s (bvadd (sl-off %s) %s))", arr, r.term, bvLit(int64(i), 64)) }
		slen := fmt.Sprintf("(slen %s)", arg(1))
		if e.R.sortOf(c.Args[1].Type()) != "Str" {
			slen = fmt.Sprintf("(sl-len %s)", arg(1))
		}
		f.assume(fmt.Sprintf("(or (= (sl-ref %s) 0) (and (bvsge %s #x0000000000000002) (= ((_ extract 0 0) %s) #b0) (bvsle #x0000000000000000 %s) (bvsle %s %s) (bvsle %s %s)))", r.term, ln, ln, at(0), at(0), at(1), at(1), slen))
		return r
	case "bytes.NewBuffer", "bytes.NewBufferString", "strings.NewReader", "strings.NewReplacer":
		used("constructor returns a non-nil pointer")
		r := f.resultHavoc(base, resT)
		f.assume(fmt.Sprintf("(> %s 0)", r.term))
		return r
	case "errors.New", "fmt.Errorf":
		used("returns a non-nil error")
		r := f.resultHavoc(base, resT)
		f.assume(fmt.Sprintf("(not (= %s I_nil))", r.term))
		return r
	case "fmt.Sprintf", "fmt.Sprint", "fmt.Sprintln":
		used("pure formatting (result not modelled)")
		return f.resultHavoc(base, resT)
	case "unicode/utf16.Encode":
		used("Encode returns the UTF-16 encoding: len(s) <= len(result) <= 2*len(s)")
		r := f.resultHavoc(base, resT)
		a := arg(0)
		f.assume(fmt.Sprintf("(and (bvsle (sl-len %s) (sl-len %s)) (bvsle (sl-len %s) (bvmul #x0000000000000002 (sl-len %s))))", a, r.term, r.term, a))
		return r
	case "unicode/utf16.Decode":
		used("Decode returns the runes: len(result) <= len(s), non-empty for non-empty input")
		r := f.resultHavoc(base, resT)
		a := arg(0)
		f.assume(fmt.Sprintf("(and (bvsle (sl-len %s) (sl-len %s)) (=> (bvsgt (sl-len %s) #x0000000000000000) (bvsgt (sl-len %s) #x0000000000000000)))", r.term, a, a, r.term))
		// a single code unit that is not a surrogate decodes to itself
		{
			k16, s16 := e.elemHeapKey(types.Typ[types.Uint16])
			k32, s32 := e.elemHeapKey(types.Typ[types.Int32])
			u := fmt.Sprintf("(select (select %s (sl-ref %s)) (sl-off %s))", e.heapGet(f.curHeap, k16, s16), a, a)
			// the result lives in a fresh array: constrain its first element through a fresh heap version
			cur := e.heapGet(f.curHeap, k32, s32)
			first := fmt.Sprintf("(select (select %s (sl-ref %s)) (sl-off %s))", cur, r.term, r.term)
			f.assume(fmt.Sprintf("(=> (and (= (sl-len %s) #x0000000000000001) (or (bvult %s #xd800) (bvugt %s #xdfff))) (and (= (sl-len %s) #x0000000000000001) (= %s ((_ zero_extend 16) %s))))", a, u, u, r.term, first, u))
		}
		return r
	}
	// default: unknown library function – result havocked, write set by argument kinds
	w := map[string]bool{}
	e.E.callWrites(c, w)
	for _, a := range c.Args {
		f.escape(a)
	}
	f.havocKeys(w)
	e.note("external call " + name + ": result havocked (no model); assumed not to panic")
	return f.resultHavoc(base, resT)
}

// invokeModel: interface method calls with a fixed meaning.
func (f *frame) invokeModel(c *ssa.CallCommon, base string, resT types.Type) (SV, bool) {
	if n, ok := c.Value.Type().(*types.Named); ok && n.Obj().Pkg() != nil && n.Obj().Pkg().Path() == "reflect" && n.Obj().Name() == "Type" {
		e := f.enc
		switch c.Method.Name() {
		case "Kind":
			e.note("assumed contract of reflect.Type.Kind: a fixed function of the type")
			e.R.extra("(declare-fun rt-kind (Iface) (_ BitVec 64))")
			return SV{t: resT, term: e.define(base, e.R.sortOf(resT), fmt.Sprintf("(rt-kind %s)", f.scalar(c.Value)))}, true
		case "String", "Name", "NumIn", "NumOut", "NumField", "IsVariadic", "Bits", "Len", "Elem", "Key", "In", "Out", "Field", "PkgPath", "Size":
			e.note("assumed contract of reflect.Type." + c.Method.Name() + ": reads nothing of otto's heap, result not modelled (a Type result is non-nil)")
			r := f.resultHavoc(base, resT)
			switch c.Method.Name() {
			case "Elem", "Key", "In", "Out":
				f.assume(fmt.Sprintf("(not (= %s I_nil))", r.term))
			}
			return r, true
		}
	}
	switch c.Method.Name() {
	case "Error", "String":
		if c.Signature().Params().Len() == 0 {
			// treated as pure on otto's heap (otto's Error/String methods only read)
			return f.resultHavoc(base, resT), true
		}
	}
	return SV{}, false
}

// declareReflect declares the abstract view of reflect.Value / reflect.Type.
func (e *FnEnc) declareReflect(rv string) {
	e.R.extra(fmt.Sprintf("(declare-fun rv-of (Iface) %s)", rv))
	e.R.extra(fmt.Sprintf("(declare-fun rv-int (%s) (_ BitVec 64))", rv))
	e.R.extra(fmt.Sprintf("(declare-fun rv-uint (%s) (_ BitVec 64))", rv))
	e.R.extra(fmt.Sprintf("(declare-fun rv-float (%s) Float64)", rv))
	e.R.extra(fmt.Sprintf("(declare-fun rv-bool (%s) Bool)", rv))
	e.R.extra(fmt.Sprintf("(declare-fun rv-kind (%s) (_ BitVec 64))", rv))
	e.R.extra("(declare-fun rt-kind (Iface) (_ BitVec 64))")
}

// reflect.Kind numbers (reflect/type.go)
const (
	rkBool = 1
	rkInt = 2
	rkInt8 = 3
	rkInt16 = 4
	rkInt32 = 5
	rkInt64 = 6
	rkUint = 7
	rkUint8 = 8
	rkUint16 = 9
	rkUint32 = 10
	rkUint64 = 11
	rkUintptr = 12
	rkFloat32 = 13
	rkFloat64 = 14
	rkInterface = 20
)

func kindIn(k string, lo, hi int64) string {
	return fmt.Sprintf("(and (bvuge %s %s) (bvule %s %s))", k, bvLit(lo, 64), k, bvLit(hi, 64))
}

// kindBitsTerm: bit size of an integer kind term (Int/Uint/Uintptr = 64 on amd64).
func kindBitsTerm(k string) string {
	is := func(n int64) string { return fmt.Sprintf("(= %s %s)", k, bvLit(n, 64)) }
	return fmt.Sprintf("(ite (or %s %s) #x0000000000000008 (ite (or %s %s) #x0000000000000010 (ite (or %s %s) #x0000000000000020 #x0000000000000040)))",
		is(rkInt8), is(rkUint8), is(rkInt16), is(rkUint16), is(rkInt32), is(rkUint32))
}

// fitsSigned / fitsUnsigned: x (64-bit) is representable in an integer of the kind's size.
func fitsSigned(k, x string) string {
	is := func(n int64) string { return fmt.Sprintf("(= %s %s)", k, bvLit(n, 64)) }
	rng := func(bits uint) string {
		lo := -(int64(1) << (bits - 1))
		hi := (int64(1) << (bits - 1)) - 1
		return fmt.Sprintf("(and (bvsle %s %s) (bvsle %s %s))", bvLit(lo, 64), x, x, bvLit(hi, 64))
	}
	return fmt.Sprintf("(ite %s %s (ite %s %s (ite %s %s true)))", is(rkInt8), rng(8), is(rkInt16), rng(16), is(rkInt32), rng(32))
}

func fitsUnsigned(k, x string) string {
	is := func(n int64) string { return fmt.Sprintf("(= %s %s)", k, bvLit(n, 64)) }
	rng := func(bits uint) string {
		hi := (int64(1) << bits) - 1
		return fmt.Sprintf("(bvule %s %s)", x, bvLit(hi, 64))
	}
	return fmt.Sprintf("(ite %s %s (ite %s %s (ite %s %s true)))", is(rkUint8), rng(8), is(rkUint16), rng(16), is(rkUint32), rng(32))
}

// reflectValueOf models reflect.ValueOf(x) for scalar dynamic types.
func (f *frame) reflectValueOf(c *ssa.CallCommon, base string, resT types.Type) SV {
	e := f.enc
	rv := e.R.sortOf(resT)
	e.declareReflect(rv)
	a := f.scalar(c.Args[0])
	r := e.define(base, rv, fmt.Sprintf("(rv-of %s)", a))
	kinds := []struct {
		k    types.BasicKind
		kind int64
	}{{types.Bool, 1}, {types.Int, 2}, {types.Int8, 3}, {types.Int16, 4}, {types.Int32, 5}, {types.Int64, 6},
		{types.Uint, 7}, {types.Uint8, 8}, {types.Uint16, 9}, {types.Uint32, 10}, {types.Uint64, 11},
		{types.Float32, 13}, {types.Float64, 14}}
	var facts []string
	for _, k := range kinds {
		t := types.Typ[k.k]
		ctor := e.R.ifaceCtor(t)
		sel := fmt.Sprintf("(v_%s %s)", ctor[2:], a)
		is := fmt.Sprintf("((_ is %s) %s)", ctor, a)
		var val string
		s := e.R.sortOf(t)
		switch {
		case s == "Bool":
			val = fmt.Sprintf("(= (rv-bool %s) %s)", r, sel)
		case isBVSort(s) && isSigned(t):
			val = fmt.Sprintf("(= (rv-int %s) %s)", r, sext(sel, bitsOfSort(s), 64))
		case isBVSort(s):
			val = fmt.Sprintf("(= (rv-uint %s) %s)", r, zext(sel, bitsOfSort(s), 64))
		case s == "Float32":
			val = fmt.Sprintf("(= (rv-float %s) ((_ to_fp 11 53) RNE %s))", r, sel)
		default:
			val = fmt.Sprintf("(= (rv-float %s) %s)", r, sel)
		}
		facts = append(facts, fmt.Sprintf("(=> %s (and %s (= (rv-kind %s) %s)))", is, val, r, bvLit(k.kind, 64)))
	}
	facts = append(facts, fmt.Sprintf("(not (= (rv-kind %s) %s))", r, bvLit(rkInterface, 64)))
	f.assume(and(facts...))
	return SV{t: resT, term: r}
}
