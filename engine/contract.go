package main

import (
	"strconv"
	"bufio"
	"fmt"
	"os"
	"path/filepath"
	"regexp"
	"sort"
	"strings"
)

// Clause is one contract clause.
type Clause struct {
	Kind  string   // requires, ensures, invariant, decreases, throws, unwind_ensures, assert
	Text  string   // expression text
	Props []string // properties the clause belongs to (default: the function's)
	Loop  int      // loop ordinal for invariant/decreases
	Label string   // optional name
	File  string
	Line  int
	Func  string
	Region string // optional known-finding region: obligation is proved for inputs outside it
}

// FuncContract holds all clauses attached to one function.
type FuncContract struct {
	Key        string
	Pkg        string
	Props      []string
	SafetyProps []string
	Requires   []*Clause
	Assumes    []*Clause // heap facts assumed at entry and NOT checked at call sites (unverified heap invariants; listed as assumptions)
	Ensures    []*Clause
	Invariants map[int][]*Clause
	BackEdges  map[int][]*Clause // "at_backedge@k e": e holds whenever control returns to the head of loop k (end of every iteration, every continue)
	Decreases  map[int]*Clause
	Throws     []*Clause
	Unwind     []*Clause
	Asserts    []*Clause
	Modifies   []string
	HasModifies bool
	Inline     bool
	Trusted    bool // contract assumed, body not verified
	NoThrow    bool
	Pure       bool
	Logical    bool    // deterministic function of its arguments (no heap): an uninterpreted function in VCs
	PureIf     *Clause // the function writes nothing visible to callers when this holds at entry
	NoSafety   bool // do not emit safety obligations (function only used as a callee contract)
	ExactAppend bool // append keeps the prefix / the rest of an array appended to in place (quantified facts, only where a proof needs them)
	AtCalls    []*CallSpec // "at_call F : expr": expr holds in the state in which F is called (args as arg0..)
	Calls      []*CallSpec
	OnlyAt     []string // "p.f": of field f (of p's struct type) only the object p is written; all other objects keep f
	FreshRefs  bool     // use the axiom that unknown heap arrays hold only pre-existing (or escaped) references
	Preserves  []string // fields whose value in every pre-existing object is the same after the call (return or panic)
	FieldCover []string // "T ignore=a,b": every field of struct type T is named in an ensures clause (or ignored on purpose)
	Implements string   // slot key ("pkg.Type.field"): the slot's requires replace, and its ensures/frames extend, this contract
	PureCalls  []string // callees with a pure_if contract whose condition is proved at every call here
	Forget     []string // callees whose contracts this proof does not use (treated as uncontracted: havoc by write set)
	Unfold     []string // opaque specs whose definitions this function's proof needs from callee contracts
	Fold       []string // opaque specs kept uninterpreted (no definition) where applied to a bound variable of a quantifier
	DynPreserves []string // fields that code reached through dynamic calls is assumed to leave unchanged
	AssumeLoads string // spec predicate assumed of every interface value loaded from a struct field / slice element
	Stable     []string // slices whose backing arrays are assumed not to be written during the call
	Split      []string // case-split expressions (each obligation proved per case)
	Timeout    int
	File       string
	Line       int
}

// CallSpec: "calls F(args) when cond" – on every normal return where cond held at entry,
// F has been called with these arguments (a ghost flag set at matching call sites);
// "nocall F(args) when cond" is the negation.
type CallSpec struct {
	Callee   string
	Args     []string
	As       string // optional ghost name for the result of the (last) matching call
	WhenRet  string // condition over the results, evaluated at each return
	Loop     int    // at_call: -1 every site, 0 sites outside loops, k sites whose innermost loop is loop k
	When     string
	Negative bool
	Clause   *Clause
}

// StableField: "stablefield[P] Type.field writers=f1,f2": the field of an existing object
// is never reassigned: every store to it is to an object allocated in the same function,
// or occurs in one of the listed functions.  Checked syntactically over all packages;
// the verifier then never havocs the field.
type StableField struct {
	Pkg, Type, Field string
	TypePrefix       string   // all fields of all struct types with this name prefix
	Files            []string // source files whose stores are exempt
	Writers          []string
	Props            []string
	File             string
	Line             int
}

type GlobalsReadonly struct {
	Pkg    string
	Except []string
	Props  []string
	File   string
	Line   int
	// Kind "" = globals_readonly; "native_closures" = no function literal of type
	// func(FunctionCall) Value captures a value through which a runtime can be reached
	Kind string
}

// SpecFunc is a specification function: either a macro over contract expressions or a
// raw SMT define-fun.
type SpecFunc struct {
	Name   string
	Params []specParam
	Ret    string // Go type text
	Body   string // contract expression (macro) or SMT text (raw)
	Raw    bool
	Opaque bool // in assumed callee contracts the application stays uninterpreted (no defining equation)
	Pkg    string
	File   string
	Line   int
}

type specParam struct{ Name, Type string }

type Lemma struct {
	Name  string
	Text  string
	Props []string
	Pkg   string
	File  string
	Line  int
	Kind  string // lemma | sanity
}

type ContractSet struct {
	Funcs   map[string]*FuncContract
	Specs   map[string]*SpecFunc
	SMTRaw  []string // raw SMT-LIB commands (declare-fun, axioms) – listed as assumptions
	Lemmas  []*Lemma
	Tables  []*TableFact
	StableFields []*StableField
	GlobalsRO    []*GlobalsReadonly
	InitArgs  []*InitArg
	Builtins  []*BuiltinSpec
	FrameSets map[string][]string
	Slots   map[string]*FuncContract // contracts of function-valued struct fields: "pkg.Type.field"
	Files   []string
	Axioms  []string
}

var clauseRe = regexp.MustCompile(`^([a-z_]+)(?:@(\d+))?(?:\[([A-Za-z0-9_,. ]+)\])?(?:\s+(.*))?$`)

// loadContracts reads every contracts_verif*.go file in the repository packages.
func loadContracts() (*ContractSet, error) {
	cs := &ContractSet{Funcs: map[string]*FuncContract{}, Specs: map[string]*SpecFunc{}, Slots: map[string]*FuncContract{}}
	dirs := map[string]string{"otto": repoDir, "parser": repoDir + "/parser", "ast": repoDir + "/ast",
		"file": repoDir + "/file", "token": repoDir + "/token", "registry": repoDir + "/registry"}
	var pkgs []string
	for p := range dirs {
		pkgs = append(pkgs, p)
	}
	sort.Strings(pkgs)
	for _, pkg := range pkgs {
		files, _ := filepath.Glob(dirs[pkg] + "/contracts_verif*.go")
		sort.Strings(files)
		for _, fn := range files {
			if err := cs.parseFile(fn, pkg); err != nil {
				return nil, err
			}
			cs.Files = append(cs.Files, fn)
		}
	}
	// "implements slot": the function is proved against the slot's contract: it may assume
	// no more than the slot's requires and must establish the slot's ensures and frames
	// (arguments are visible under the slot's names arg0, arg1, ...).
	for _, fc := range cs.Funcs {
		if fc.Implements == "" {
			continue
		}
		slot := cs.Slots[fc.Implements]
		if slot == nil {
			return nil, fmt.Errorf("%s:%d: %s implements unknown slot %s", fc.File, fc.Line, fc.Key, fc.Implements)
		}
		if len(fc.Requires) > 0 {
			return nil, fmt.Errorf("%s:%d: %s implements %s: its requires clauses belong on the slot", fc.File, fc.Line, fc.Key, fc.Implements)
		}
		cp := func(cls []*Clause) (out []*Clause) {
			for _, c := range cls {
				d := *c
				d.Func = fc.Key
				d.Props = nil
				out = append(out, &d)
			}
			return
		}
		fc.Requires = cp(slot.Requires)
		fc.Ensures = append(fc.Ensures, cp(slot.Ensures)...)
		fc.Unwind = append(fc.Unwind, cp(slot.Unwind)...)
		fc.OnlyAt = append(fc.OnlyAt, slot.OnlyAt...)
		fc.Preserves = append(fc.Preserves, slot.Preserves...)
	}
	return cs, nil
}

func (cs *ContractSet) parseFile(path, pkg string) error {
	fh, err := os.Open(path)
	if err != nil {
		return err
	}
	defer fh.Close()
	sc := bufio.NewScanner(fh)
	sc.Buffer(make([]byte, 1<<20), 1<<20)
	var cur *FuncContract
	var lastText *string
	line := 0
	for sc.Scan() {
		line++
		raw := sc.Text()
		t := strings.TrimSpace(raw)
		if strings.HasPrefix(t, "//@+") {
			if lastText == nil {
				return fmt.Errorf("%s:%d: continuation without clause", path, line)
			}
			*lastText += " " + strings.TrimSpace(strings.TrimPrefix(t, "//@+"))
			continue
		}
		if !strings.HasPrefix(t, "//@") {
			continue
		}
		body := strings.TrimSpace(strings.TrimPrefix(t, "//@"))
		if body == "" || strings.HasPrefix(body, "#") {
			continue
		}
		m := clauseRe.FindStringSubmatch(body)
		if m == nil {
			return fmt.Errorf("%s:%d: cannot parse contract line %q", path, line, body)
		}
		kw, ord, tag, rest := m[1], m[2], m[3], strings.TrimSpace(m[4])
		var props []string
		if tag != "" {
			for _, p := range strings.Split(tag, ",") {
				props = append(props, strings.TrimSpace(p))
			}
		}
		loop := 0
		fmt.Sscanf(ord, "%d", &loop)
		switch kw {
		case "func":
			key := rest
			if !strings.Contains(strings.SplitN(key, "(", 2)[0], ".") || strings.HasPrefix(key, "(") {
				key = pkg + "." + key
			}
			if _, dup := cs.Funcs[key]; dup {
				return fmt.Errorf("%s:%d: duplicate contract for %s", path, line, key)
			}
			cur = &FuncContract{Key: key, Pkg: pkg, Invariants: map[int][]*Clause{}, Decreases: map[int]*Clause{}, File: path, Line: line}
			cs.Funcs[key] = cur
			lastText = nil
		case "initarg":
			// initarg[P] name = `text`   (raw string: everything between the first and last back-quote)
			eq := strings.Index(rest, "=")
			a, z := strings.Index(rest, "`"), strings.LastIndex(rest, "`")
			text := ""
			if eq >= 0 && a < 0 {
				// name = "text" with Go escapes (for constants holding characters better written as \uXXXX)
				q, err := strconv.Unquote(strings.TrimSpace(rest[eq+1:]))
				if err != nil {
					return fmt.Errorf("%s:%d: initarg needs name = `text` or name = \"text\"", path, line)
				}
				text = q
			} else {
				if eq < 0 || a < eq || z <= a {
					return fmt.Errorf("%s:%d: initarg needs name = `text`", path, line)
				}
				text = rest[a+1 : z]
			}
			cs.InitArgs = append(cs.InitArgs, &InitArg{Global: strings.TrimSpace(rest[:eq]), Text: text, Props: props, Pkg: pkg, File: path, Line: line})
			cur = nil
			lastText = nil
		case "builtin":
			b, err := parseBuiltinSpec(rest, props, path, line)
			if err != nil {
				return fmt.Errorf("%s:%d: %v", path, line, err)
			}
			cs.Builtins = append(cs.Builtins, b)
			cur = nil
			lastText = nil
		case "frameset":
			// "frameset name = a, b, c": a named list for preserves clauses ("preserves @name")
			eq := strings.Index(rest, "=")
			if eq < 0 {
				return fmt.Errorf("%s:%d: frameset: want name = entries", path, line)
			}
			if cs.FrameSets == nil {
				cs.FrameSets = map[string][]string{}
			}
			var ents []string
			for _, x := range splitTop(rest[eq+1:], ",") {
				if x = strings.TrimSpace(x); x != "" {
					ents = append(ents, x)
				}
			}
			cs.FrameSets[strings.TrimSpace(rest[:eq])] = ents
			cur = nil
			lastText = nil
		case "slot":
			key := pkg + "." + rest
			cur = &FuncContract{Key: "slot " + key, Pkg: pkg, Invariants: map[int][]*Clause{}, Decreases: map[int]*Clause{}, File: path, Line: line, Trusted: true}
			cs.Slots[key] = cur
			lastText = nil
		case "spec", "smt", "ospec":
			sf, err := parseSpec(rest, kw == "smt")
			if err == nil && kw == "ospec" {
				sf.Opaque = true
			}
			if err != nil {
				return fmt.Errorf("%s:%d: %v", path, line, err)
			}
			sf.Pkg, sf.File, sf.Line = pkg, path, line
			cs.Specs[sf.Name] = sf
			lastText = &sf.Body
			cur = nil
		case "smtraw":
			cs.SMTRaw = append(cs.SMTRaw, rest)
			lastText = &cs.SMTRaw[len(cs.SMTRaw)-1]
			cur = nil
		case "globals_readonly":
			// globals_readonly[P] except=name1,name2 : package-level variables of this package are
			// written only by its initialisers (the listed variables are documented exceptions)
			gr := &GlobalsReadonly{Pkg: pkg, Props: props, File: path, Line: line}
			for _, f := range strings.Fields(rest) {
				if strings.HasPrefix(f, "except=") {
					gr.Except = strings.Split(strings.TrimPrefix(f, "except="), ",")
				}
			}
			cs.GlobalsRO = append(cs.GlobalsRO, gr)
			lastText = nil
			cur = nil
		case "native_closures":
			// native_closures[P] except=fn1,fn2 : native function values are shared by Copy()
			// between the original and the copy, so no function literal of the native function
			// type may capture a runtime, object or value (except in the listed functions)
			gr := &GlobalsReadonly{Pkg: pkg, Props: props, File: path, Line: line, Kind: "native_closures"}
			for _, f := range strings.Fields(rest) {
				if strings.HasPrefix(f, "except=") {
					gr.Except = strings.Split(strings.TrimPrefix(f, "except="), ",")
				}
			}
			cs.GlobalsRO = append(cs.GlobalsRO, gr)
			lastText = nil
			cur = nil
		case "stabletypes":
			// stabletypes[P] prefix=node files=cmpl_parse.go : every field of every struct type
			// whose name starts with the prefix is stable; stores in the listed files are exempt
			st := &StableField{Pkg: pkg, Props: props, File: path, Line: line}
			for _, f := range strings.Fields(rest) {
				switch {
				case strings.HasPrefix(f, "prefix="):
					st.TypePrefix = strings.TrimPrefix(f, "prefix=")
				case strings.HasPrefix(f, "files="):
					st.Files = strings.Split(strings.TrimPrefix(f, "files="), ",")
				}
			}
			if st.TypePrefix == "" {
				return fmt.Errorf("%s:%d: stabletypes needs prefix=", path, line)
			}
			cs.StableFields = append(cs.StableFields, st)
			lastText = nil
			cur = nil
		case "stablefield":
			sf := &StableField{Pkg: pkg, Props: props, File: path, Line: line}
			fields := strings.Fields(rest)
			if len(fields) == 0 || !strings.Contains(fields[0], ".") {
				return fmt.Errorf("%s:%d: stablefield needs Type.field", path, line)
			}
			tf := strings.SplitN(fields[0], ".", 2)
			sf.Type, sf.Field = tf[0], tf[1]
			for _, f := range fields[1:] {
				if strings.HasPrefix(f, "writers=") {
					for _, w := range strings.Split(strings.TrimPrefix(f, "writers="), ",") {
						if w != "" {
							if !strings.Contains(strings.SplitN(w, "(", 2)[0], ".") || strings.HasPrefix(w, "(") {
								w = pkg + "." + w
							}
							sf.Writers = append(sf.Writers, w)
						}
					}
				}
			}
			cs.StableFields = append(cs.StableFields, sf)
			lastText = nil
			cur = nil
		case "table":
			// table[P] global.field = function
			parts := strings.SplitN(rest, "=", 2)
			lhs := strings.Split(strings.TrimSpace(parts[0]), ".")
			if len(parts) != 2 || len(lhs) != 2 {
				return fmt.Errorf("%s:%d: table needs global.field = function", path, line)
			}
			cs.Tables = append(cs.Tables, &TableFact{Global: lhs[0], Field: lhs[1], Func: strings.TrimSpace(parts[1]), Props: props, File: path, Line: line, Pkg: pkg})
			lastText = nil
			cur = nil
		case "lemma", "sanity":
			lm := &Lemma{Kind: kw, Props: props, Pkg: pkg, File: path, Line: line}
			if kw == "lemma" {
				parts := strings.SplitN(rest, ":", 2)
				if len(parts) != 2 {
					return fmt.Errorf("%s:%d: lemma needs name: formula", path, line)
				}
				lm.Name, lm.Text = strings.TrimSpace(parts[0]), strings.TrimSpace(parts[1])
			} else {
				lm.Name, lm.Text = "sanity["+rest+"]", rest
			}
			cs.Lemmas = append(cs.Lemmas, lm)
			lastText = &lm.Text
			cur = nil
		default:
			if cur == nil {
				return fmt.Errorf("%s:%d: clause %q outside func", path, line, kw)
			}
			cl := &Clause{Kind: kw, Text: rest, Props: props, Loop: loop, File: path, Line: line, Func: cur.Key}
			lastText = &cl.Text
			switch kw {
			case "props":
				cur.Props = strings.Fields(rest)
				lastText = nil
			case "safety":
				cur.SafetyProps = strings.Fields(rest)
				lastText = nil
			case "requires":
				cur.Requires = append(cur.Requires, cl)
			case "assumes":
				cur.Assumes = append(cur.Assumes, cl)
			case "ensures":
				cur.Ensures = append(cur.Ensures, cl)
			case "invariant":
				if loop == 0 {
					cl.Loop = 1
				}
				cur.Invariants[cl.Loop] = append(cur.Invariants[cl.Loop], cl)
			case "at_backedge":
				if loop == 0 {
					cl.Loop = 1
				}
				if cur.BackEdges == nil {
					cur.BackEdges = map[int][]*Clause{}
				}
				cur.BackEdges[cl.Loop] = append(cur.BackEdges[cl.Loop], cl)
			case "decreases":
				if loop == 0 {
					cl.Loop = 1
				}
				cur.Decreases[cl.Loop] = cl
			case "throws":
				cur.Throws = append(cur.Throws, cl)
			case "unwind_ensures":
				cur.Unwind = append(cur.Unwind, cl)
			case "assert":
				cur.Asserts = append(cur.Asserts, cl)
			case "modifies":
				cur.HasModifies = true
				for _, x := range splitTop(rest, ",") {
					if x = strings.TrimSpace(x); x != "" && x != "nothing" {
						cur.Modifies = append(cur.Modifies, x)
					}
				}
				lastText = nil
			case "inline":
				cur.Inline = true
			case "trusted":
				cur.Trusted = true
			case "nothrow":
				cur.NoThrow = true
			case "pure":
				cur.Pure = true
			case "logical":
				cur.Logical = true
				cur.Pure = true
			case "pure_if":
				cur.PureIf = cl
			case "exact_append":
				cur.ExactAppend = true
			case "nosafety":
				cur.NoSafety = true
			case "at_call":
				i := strings.Index(rest, ":")
				if i < 0 {
					return fmt.Errorf("%s:%d: at_call needs F : expr", path, line)
				}
				callee := strings.TrimSpace(rest[:i])
				// "F @k": only the call sites inside loop k (ordinal as in invariant@k; the
				// innermost loop containing the site), "F @0": only the sites outside all loops
				loop := -1
				if j := strings.Index(callee, "@"); j > 0 {
					if _, err := fmt.Sscanf(strings.TrimSpace(callee[j+1:]), "%d", &loop); err != nil {
						return fmt.Errorf("%s:%d: at_call F @k : expr needs a loop ordinal", path, line)
					}
					callee = strings.TrimSpace(callee[:j])
				}
				if callee != "select" && (strings.HasPrefix(callee, "(") || !strings.Contains(callee, ".")) {
					callee = pkg + "." + callee
				}
				cl.Text = strings.TrimSpace(rest[i+1:])
				cur.AtCalls = append(cur.AtCalls, &CallSpec{Callee: callee, When: "", Clause: cl, Loop: loop})
				lastText = &cl.Text
			case "calls", "nocall":
				cs, err := parseCallSpec(rest, pkg)
				if err != nil {
					return fmt.Errorf("%s:%d: %v", path, line, err)
				}
				cs.Negative = kw == "nocall"
				cs.Clause = cl
				cur.Calls = append(cur.Calls, cs)
				lastText = nil
			case "writes_only_at":
				for _, x := range strings.Split(rest, ",") {
					if x = strings.TrimSpace(x); x != "" {
						cur.OnlyAt = append(cur.OnlyAt, x)
					}
				}
				lastText = nil
			case "fresh_refs":
				cur.FreshRefs = true
			case "preserves":
				for _, x := range splitTop(rest, ",") {
					if x = strings.TrimSpace(x); x != "" {
						if strings.HasPrefix(x, "@") {
							fs, ok := cs.FrameSets[x[1:]]
							if !ok {
								return fmt.Errorf("%s:%d: unknown frameset %s", path, line, x)
							}
							cur.Preserves = append(cur.Preserves, fs...)
							continue
						}
						cur.Preserves = append(cur.Preserves, x)
					}
				}
				lastText = nil
			case "fieldcover":
				cur.FieldCover = append(cur.FieldCover, rest)
				lastText = nil
			case "pure_calls":
				for _, x := range strings.Fields(strings.ReplaceAll(rest, ",", " ")) {
					if strings.HasPrefix(x, "(") || !strings.Contains(x, ".") {
						x = pkg + "." + x
					}
					cur.PureCalls = append(cur.PureCalls, x)
				}
				lastText = nil
			case "abstract_callee":
				for _, x := range strings.Fields(strings.ReplaceAll(rest, ",", " ")) {
					if strings.HasPrefix(x, "(") || !strings.Contains(x, ".") {
						x = pkg + "." + x
					}
					cur.Forget = append(cur.Forget, x)
				}
				lastText = nil
			case "implements":
				cur.Implements = pkg + "." + strings.TrimSpace(rest)
				lastText = nil
			case "unfold":
				cur.Unfold = append(cur.Unfold, strings.Fields(strings.ReplaceAll(rest, ",", " "))...)
				lastText = nil
			case "fold":
				cur.Fold = append(cur.Fold, strings.Fields(strings.ReplaceAll(rest, ",", " "))...)
				lastText = nil
			case "dyn_preserves":
				for _, x := range strings.Split(rest, ",") {
					if x = strings.TrimSpace(x); x != "" {
						cur.DynPreserves = append(cur.DynPreserves, x)
					}
				}
				lastText = nil
			case "assume_loads":
				cur.AssumeLoads = rest
				lastText = nil
			case "stable":
				cur.Stable = append(cur.Stable, rest)
				lastText = nil
			case "split":
				cur.Split = append(cur.Split, rest)
				lastText = &cur.Split[len(cur.Split)-1]
			case "timeout":
				fmt.Sscanf(rest, "%d", &cur.Timeout)
			case "region":
				// region attaches to the previous ensures clause
				if n := len(cur.Ensures); n > 0 {
					cur.Ensures[n-1].Region = rest
					lastText = &cur.Ensures[n-1].Region
				} else {
					return fmt.Errorf("%s:%d: region without ensures", path, line)
				}
			default:
				return fmt.Errorf("%s:%d: unknown clause %q", path, line, kw)
			}
		}
	}
	return sc.Err()
}

var specHeadRe = regexp.MustCompile(`^([A-Za-z_][A-Za-z0-9_]*)\s*\(([^)]*)\)\s*([^=]*?)\s*=\s*(.*)$`)

func parseSpec(s string, raw bool) (*SpecFunc, error) {
	m := specHeadRe.FindStringSubmatch(s)
	if m == nil {
		return nil, fmt.Errorf("cannot parse spec %q", s)
	}
	sf := &SpecFunc{Name: m[1], Ret: strings.TrimSpace(m[3]), Body: strings.TrimSpace(m[4]), Raw: raw}
	for _, p := range strings.Split(m[2], ",") {
		p = strings.TrimSpace(p)
		if p == "" {
			continue
		}
		parts := strings.SplitN(p, " ", 2)
		if len(parts) != 2 {
			return nil, fmt.Errorf("spec parameter %q needs a type", p)
		}
		sf.Params = append(sf.Params, specParam{parts[0], strings.TrimSpace(parts[1])})
	}
	return sf, nil
}

func parseCallSpec(s, pkg string) (*CallSpec, error) {
	when, whenret := "", ""
	if i := strings.Index(s, " whenret "); i >= 0 {
		whenret = strings.TrimSpace(s[i+9:])
		s = strings.TrimSpace(s[:i])
	}
	if i := strings.Index(s, " when "); i >= 0 {
		when = strings.TrimSpace(s[i+6:])
		s = strings.TrimSpace(s[:i])
	}
	as := ""
	if i := strings.LastIndex(s, ") as "); i >= 0 {
		as = strings.TrimSpace(s[i+5:])
		s = strings.TrimSpace(s[:i+1])
	}
	// callee key: up to the last top-level "(...)" group
	if !strings.HasSuffix(s, ")") {
		return nil, fmt.Errorf("calls clause needs F(args)")
	}
	depth := 0
	open := -1
	for i := len(s) - 1; i >= 0; i-- {
		if s[i] == ')' {
			depth++
		} else if s[i] == '(' {
			depth--
			if depth == 0 {
				open = i
				break
			}
		}
	}
	if open <= 0 {
		return nil, fmt.Errorf("calls clause needs F(args)")
	}
	callee := strings.TrimSpace(s[:open])
	if callee == "select" {
		// pseudo-callee: a select statement polling the channel given as argument
	} else if strings.HasPrefix(callee, "(") || !strings.Contains(callee, ".") {
		callee = pkg + "." + callee
	}
	cs := &CallSpec{Callee: callee, When: when, WhenRet: whenret, As: as}
	for _, a := range splitTop(s[open+1:len(s)-1], ",") {
		if a = strings.TrimSpace(a); a != "" {
			cs.Args = append(cs.Args, a)
		}
	}
	return cs, nil
}
