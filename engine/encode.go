package main

import (
	"bytes"
	"fmt"
	"go/ast"
	"go/constant"
	"go/printer"
	"go/token"
	"go/types"
	"math"
	"math/big"
	"regexp"
	"sort"
	"strings"

	"golang.org/x/tools/go/ssa"
)

func float64bits(f float64) uint64 { return math.Float64bits(f) }
func float32bits(f float32) uint32 { return math.Float32bits(f) }

// ---------------------------------------------------------------------------
// Symbolic values
// ---------------------------------------------------------------------------

type locKind int

const (
	locNone   locKind = iota
	locField          // field path inside a struct on the heap: base ref, struct type, path
	locElem           // element of a slice/array on the heap: ref, absolute index
	locCell           // non-struct cell (address-taken local of scalar type): ref
	locGlobal         // package-level variable
)

// Loc is an address that is not a plain reference to a struct: &p.f, &s[i], &local, &global.
type Loc struct {
	kind   locKind
	base   string     // ref term (field, elem, cell)
	owner  types.Type // struct type owning path[0] (field)
	path   []int      // field indices, path[0] in owner, rest nested struct values
	idx    string     // absolute element index (elem)
	elemT  types.Type // type of the addressed thing
	global *ssa.Global
}

// SV is the symbolic value of one SSA value.
type SV struct {
	term  string // SMT term (scalars, refs, structs, slices, ifaces)
	tuple []SV   // multi-value results
	loc   *Loc   // addresses
	t     types.Type
	cval  constant.Value // untyped constant in contract expressions
}

// Heap maps heap-array keys to the SMT name of their current version.
type Heap map[string]string

func (h Heap) clone() Heap {
	n := make(Heap, len(h))
	for k, v := range h {
		n[k] = v
	}
	return n
}

// Obl is one proof obligation: pc ∧ ¬cond must be unsatisfiable.
type Obl struct {
	Name    string
	Kind    string // post, safety.index, safety.nil, foreign, call.pre, inv.init, ...
	Func    string
	Props   []string
	PC      string
	Cond    string
	NDecls  int // number of FnEnc.decls that precede the obligation
	Pos     string
	Text    string // source text of clause / expression
	Inputs  []string
	enc     *FnEnc
	Trivial bool      // cond folded to true syntactically
	Parts   []oblPart // optional split: the obligation holds iff every part does (solved separately)
}

type oblPart struct{ PC, Cond string }

type unsupported struct{ msg string }

func (u unsupported) Error() string { return u.msg }

func bail(format string, a ...interface{}) {
	panic(unsupported{fmt.Sprintf(format, a...)})
}

// FnEnc encodes one function (plus inlined callees) into SMT definitions and obligations.
type FnEnc struct {
	E        *Engine
	Fn       *ssa.Function
	Key      string
	C        *FuncContract
	R        *TypeReg
	decls    []string
	ctr      int
	obls     []*Obl
	notes    []string // assumptions used (assume_lib, havocked callees, ...)
	noteSeen map[string]bool

	inputs         []string // names of input constants (for models)
	safetyCount    map[string]int
	allocCtr       int
	escaped        bool     // a locally allocated reference may have reached the heap or a callee
	escapedRefs    []string // fresh references of this activation that may have escaped
	escapedSeen    map[string]bool
	// where a fresh reference escaped: blocks of the function under proof (nil entry = an
	// inlined callee or unknown place: treated as escaped everywhere)
	escapedAt   map[string][]*ssa.BasicBlock
	escapeBlock *ssa.BasicBlock // block being encoded by the top frame (nil inside inlined callees)
	refAlias       map[string][]string
	refAxioms      bool // emit the reference well-formedness axiom for unknown pointer-valued heap arrays
	epochDeclared  map[string]bool
	atCallSeen     map[int]bool
	globalFactSeen map[string]bool
	nonNilGlobals  []string // terms of init-once pointer globals (pairwise distinct)
	rawUsed        map[string]bool
	fbits          map[string]string
	heapTouch      int
	typeFacts      map[string]bool
	pendingLoads   []SV                 // loaded interface values of which the assume_loads predicate is assumed
	subOf          map[string][2]string // substring term -> (string it was cut from, offset)
	gaddrs         map[string]bool
	stableGlobals  map[string]bool
	specApps       map[string]bool
	rawOrder       []string
	usedContracts  map[string]bool
	top            *frame
	prePC          string
	pureCond       string
	preNDecls      int
	inputTypes     []types.Type
	depth          int
}

// frame is the per-function (or per-inlined-call) encoding state.
type frame struct {
	enc       *FnEnc
	fn        *ssa.Function
	prefix    string
	vals      map[ssa.Value]SV
	reach     map[*ssa.BasicBlock]string
	heapOut   map[*ssa.BasicBlock]Heap
	pcOut     map[*ssa.BasicBlock]string // path condition at end of block (reach ∧ assumptions)
	backEdges map[[2]int]bool
	loopHeads map[int]*loopInfo
	params    []SV
	entryHeap Heap
	// results
	rets          []retInfo
	contract      *FuncContract
	curInstr      ssa.Instruction // instruction being encoded (at_call clauses resolve locals to the value reaching it)
	atCallCtx     bool
	inLibNote     bool
	parent        *frame
	isTop         bool
	namedVals     map[string]ssa.Value // source-level names -> ssa value (params, phis with comments)
	curBlock      *ssa.BasicBlock
	curHeap       Heap
	curPC         string
	curLoop       *loopInfo
	defers        []deferRec
	throws        []throwRec
	variants      map[int][]string
	variantBounds map[int][]string
	headHeaps     map[int]Heap // heap at the head of loop k (current iteration), for athead(k, e)
	locals        []localAlloc // non-escaping allocations: untouched by callees and havocs
	ghostRetTypes map[int]types.Type
	excs          []excState
	inDeferred    bool
	calleePure    string // condition under which the call being applied is pure
	inLoopHavoc   bool
}

// wrote records a write to caller-visible memory; under a pure_if contract it is an
// obligation that the write is unreachable when the purity condition held at entry.
func (f *frame) wrote(what string) {
	top := f.enc.top
	if top == nil || top.contract == nil || top.contract.PureIf == nil || f.enc.pureCond == "" || f.inLoopHavoc {
		return
	}
	cond := not(f.enc.pureCond)
	if f.calleePure != "" {
		cond = or(cond, f.calleePure)
	}
	pos := token.NoPos
	f.oblige("frame.pure", what, cond, "pure_if "+top.contract.PureIf.Text, pos)
}

// excState: the state in which a panic (JavaScript throw or foreign) leaves this function,
// before its deferred calls run.
type excState struct {
	pc    string
	heap  Heap
	label string
	pos   token.Pos
}

func (f *frame) wantUnwind() bool {
	top := f.enc.top
	if top == nil || top.contract == nil {
		return false
	}
	if len(top.contract.Unwind) > 0 || len(top.contract.Preserves) > 0 || len(top.contract.OnlyAt) > 0 {
		return true
	}
	for _, cs := range top.contract.Calls {
		if cs.Negative {
			return true // "nocall" also speaks about the paths that end in a panic
		}
	}
	return false
}

func (f *frame) recordExc(label string, pos token.Pos, pc string, heap Heap) {
	if !f.wantUnwind() || f.inDeferred {
		return
	}
	top := f.enc.top
	top.excs = append(top.excs, excState{pc: pc, heap: heap, label: label, pos: pos})
}

type localAlloc struct {
	ref string
	t   types.Type
}

type retInfo struct {
	pc   string
	vals []SV
	heap Heap
	blk  *ssa.BasicBlock
}

type loopInfo struct {
	head   *ssa.BasicBlock
	blocks map[int]bool
	ord    int // ordinal in source order
}

func (e *FnEnc) fresh(base string) string {
	e.ctr++
	return fmt.Sprintf("%s!%d", base, e.ctr)
}

func (e *FnEnc) note(s string) {
	if e.noteSeen == nil {
		e.noteSeen = map[string]bool{}
	}
	if !e.noteSeen[s] {
		e.noteSeen[s] = true
		e.notes = append(e.notes, s)
	}
}

func (e *FnEnc) define(name, sort, term string) string {
	if sort == "TUPLE" {
		bail("define of tuple sort")
	}
	e.decls = append(e.decls, fmt.Sprintf("(define-fun %s () %s %s)", name, sort, term))
	if sort == "Int" || sort == "Iface" || sort == "Slice" || strings.HasPrefix(sort, "S_") || strings.HasPrefix(sort, "(Array") {
		// remember which fresh references a named value may denote (for escape tracking)
		if refs := e.freshIn(term); len(refs) > 0 {
			if e.refAlias == nil {
				e.refAlias = map[string][]string{}
			}
			e.refAlias[name] = refs
		}
	}
	return name
}

var nameTokRe = regexp.MustCompile(`[A-Za-z_][A-Za-z0-9_.!@$#]*`)

// freshIn: the fresh references "(- k)" a term mentions directly or through named values.
func (e *FnEnc) freshIn(term string) []string {
	// a reference that only occurs as the ADDRESS of a memory read, (select H (- k)), is not
	// part of the value: drop select subterms before looking
	term = stripSelects(term)
	seen := map[string]bool{}
	var out []string
	for _, r := range freshRefRe.FindAllString(term, -1) {
		if !seen[r] {
			seen[r] = true
			out = append(out, r)
		}
	}
	if len(e.refAlias) > 0 {
		for _, tok := range nameTokRe.FindAllString(term, -1) {
			for _, r := range e.refAlias[tok] {
				if !seen[r] {
					seen[r] = true
					out = append(out, r)
				}
			}
		}
	}
	return out
}

func (e *FnEnc) declare(name, sort string) string {
	e.decls = append(e.decls, fmt.Sprintf("(declare-const %s %s)", name, sort))
	if e.refAxioms && sort == "(Array Int Int)" && (strings.HasPrefix(name, "H_") || strings.HasPrefix(name, "C_")) {
		e.refAxiom(name)
	}
	return name
}

// refAxiom: every reference stored in an unknown heap array denotes an object that existed
// before this activation's allocations (>= 0) or one of its escaped allocations.
func (e *FnEnc) refAxiom(arr string) {
	ds := []string{fmt.Sprintf("(>= (select %s q!r) 0)", arr)}
	for _, r := range e.escapedRefs {
		ds = append(ds, fmt.Sprintf("(= (select %s q!r) %s)", arr, r))
	}
	e.decls = append(e.decls, fmt.Sprintf("(assert (forall ((q!r Int)) %s))", or(ds...)))
}

// havoc returns a fresh unconstrained constant of the sort of t and the type invariants
// that every Go value of that type satisfies.
func (e *FnEnc) havoc(base string, t types.Type) (string, string) {
	s := e.R.sortOf(t)
	n := e.declare(e.fresh(base), s)
	return n, e.typeInv(n, t, 2)
}

// typeInv: facts true of every value of Go type t (slice/string lengths non-negative and
// bounded, len <= cap, references non-negative, named constants within declared range are NOT assumed).
func (e *FnEnc) typeInv(term string, t types.Type, depth int) string {
	switch u := t.Underlying().(type) {
	case *types.Basic:
		if u.Info()&types.IsString != 0 {
			return fmt.Sprintf("(and (bvsle #x0000000000000000 (slen %s)) (bvsle (slen %s) #x000000ffffffffff))", term, term)
		}
	case *types.Slice:
		return and(
			fmt.Sprintf("(bvsle #x0000000000000000 (sl-len %s))", term),
			fmt.Sprintf("(bvsle (sl-len %s) (sl-cap %s))", term, term),
			fmt.Sprintf("(bvsle #x0000000000000000 (sl-off %s))", term),
			fmt.Sprintf("(bvsle (sl-off %s) #x0000ffffffffffff)", term),
			fmt.Sprintf("(bvsle (sl-cap %s) #x0000ffffffffffff)", term),
			e.refInv(fmt.Sprintf("(sl-ref %s)", term)),
			fmt.Sprintf("(=> (= (sl-ref %s) 0) (= (sl-cap %s) #x0000000000000000))", term, term),
		)
	case *types.Struct:
		if depth <= 0 {
			return "true"
		}
		si := e.R.structOf(t)
		var cs []string
		for i := 0; i < u.NumFields(); i++ {
			cs = append(cs, e.typeInv(fmt.Sprintf("(%s %s)", si.fields[i], term), u.Field(i).Type(), depth-1))
		}
		return and(cs...)
	case *types.Interface:
		return e.ifaceInv(term)
	case *types.Pointer, *types.Map:
		return e.refInv(term)
	}
	return "true"
}

// refInv: a reference obtained from memory or from a callee is an object that existed
// before this activation's own allocations (>= 0) or one of those that escaped.
func (e *FnEnc) refInv(term string) string {
	ds := []string{fmt.Sprintf("(>= %s 0)", term)}
	for _, r := range e.escapedRefs {
		ds = append(ds, fmt.Sprintf("(= %s %s)", term, r))
	}
	return or(ds...)
}

// ifaceInv: payload invariants for the registered dynamic types are added lazily by
// typeassert sites (string length); nothing global here.
func (e *FnEnc) ifaceInv(term string) string { return "true" }

// ---------------------------------------------------------------------------
// heap access
// ---------------------------------------------------------------------------

func (e *FnEnc) fieldHeapKey(owner types.Type, field int) (key, sort string) {
	st := owner.Underlying().(*types.Struct)
	fs := e.R.sortOf(st.Field(field).Type())
	name := "H_" + mangle(typeName(owner)) + "." + st.Field(field).Name()
	return name, "(Array Int " + fs + ")"
}

func (e *FnEnc) elemHeapKey(elemT types.Type) (key, sort string) {
	es := e.R.sortOf(elemT)
	return "E_" + mangle(es), "(Array Int (Array (_ BitVec 64) " + es + "))"
}

func (e *FnEnc) cellHeapKey(t types.Type) (key, sort string) {
	s := e.R.sortOf(t)
	return "C_" + mangle(s), "(Array Int " + s + ")"
}

func (e *FnEnc) heapGet(h Heap, key, sort string) string {
	e.heapTouch++
	if v, ok := h[key]; ok {
		if strings.HasPrefix(v, "?") {
			e.R.heapConst(key, sort)
			name := v[1:]
			if e.epochDeclared == nil {
				e.epochDeclared = map[string]bool{}
			}
			if !e.epochDeclared[name] {
				e.epochDeclared[name] = true
				e.declare(name, sort)
			}
			h[key] = name
			return name
		}
		return v
	}
	e.R.heapConst(key, sort)
	v := e.epochName(h, key)
	h[key] = v
	return v
}

// epochName: the name of heap array key in heap h when h has no explicit entry for it:
// the initial constant, or a fresh constant tied to the last havoc-everything epoch.
func (e *FnEnc) epochName(h Heap, key string) string {
	if strings.HasPrefix(key, "ghost!") {
		// ghost state that was never set on this path
		if e.R.heapDecl[key] == "Bool" {
			return "false"
		}
		if strings.HasPrefix(key, "ghost!cnt!") {
			return bvLit(0, 64)
		}
		name := key + "!unset"
		if e.epochDeclared == nil {
			e.epochDeclared = map[string]bool{}
		}
		if !e.epochDeclared[name] {
			e.epochDeclared[name] = true
			e.declare(name, e.R.heapDecl[key])
		}
		return name
	}
	ep, ok := h["!epoch"]
	if !ok {
		return key
	}
	name := key + "@" + ep
	if e.R.heapDecl[key] == "" {
		// sort not known yet (array never touched in this query): placeholder that
		// heapGet declares at the first use
		return "?" + name
	}
	if e.epochDeclared == nil {
		e.epochDeclared = map[string]bool{}
	}
	if !e.epochDeclared[name] {
		e.epochDeclared[name] = true
		e.declare(name, e.R.heapDecl[key])
	}
	return name
}

func (e *FnEnc) heapSet(h Heap, key, sort, term string) {
	n := e.define(e.fresh(key), sort, term)
	h[key] = n
}

func (f *frame) loadLoc(l *Loc, h Heap) string {
	e := f.enc
	switch l.kind {
	case locField:
		key, sort := e.fieldHeapKey(l.owner, l.path[0])
		t := fmt.Sprintf("(select %s %s)", e.heapGet(h, key, sort), l.base)
		ft := l.owner.Underlying().(*types.Struct).Field(l.path[0]).Type()
		for _, p := range l.path[1:] {
			si := e.R.structOf(ft)
			t = fmt.Sprintf("(%s %s)", si.fields[p], t)
			ft = ft.Underlying().(*types.Struct).Field(p).Type()
		}
		return t
	case locElem:
		key, sort := e.elemHeapKey(l.elemT)
		return fmt.Sprintf("(select (select %s %s) %s)", e.heapGet(h, key, sort), l.base, l.idx)
	case locCell:
		if _, ok := l.elemT.Underlying().(*types.Struct); ok {
			return f.loadStruct(l.base, l.elemT, h)
		}
		if arr, ok := l.elemT.Underlying().(*types.Array); ok {
			key, sort := e.elemHeapKey(arr.Elem())
			return fmt.Sprintf("(select %s %s)", e.heapGet(h, key, sort), l.base)
		}
		key, sort := e.cellHeapKey(l.elemT)
		return fmt.Sprintf("(select %s %s)", e.heapGet(h, key, sort), l.base)
	case locGlobal:
		if l.idx != "" {
			// element of an array-typed package variable
			key := "G_" + mangle(l.global.Pkg.Pkg.Name()+"."+l.global.Name())
			srt := e.R.sortOf(l.owner)
			var arr string
			if e.E.globalIsStable(l.global) || e.E.globalElemOnlyRead(l.global) {
				arr = e.R.heapConst(key, srt)
			} else {
				arr = e.heapGet(h, key, srt)
			}
			return fmt.Sprintf("(select %s %s)", arr, l.idx)
		}
		if t, ok := e.globalConstTerm(l.global); ok {
			return t
		}
		key := "G_" + mangle(l.global.Pkg.Pkg.Name()+"."+l.global.Name())
		if e.E.globalIsStable(l.global) {
			// written only by its package initialiser: one fixed (unknown) value
			return e.stableGlobalTerm(l.global, key, l.elemT)
		}
		t := e.heapGet(h, key, e.R.sortOf(l.elemT))
		if facts := e.globalFieldFacts(l.global, t); len(facts) > 0 {
			e.note("package variable " + l.global.Name() + " is written only by its initialiser: constant field values read off the init function")
			for _, fct := range facts {
				if e.globalFactSeen == nil {
					e.globalFactSeen = map[string]bool{}
				}
				if !e.globalFactSeen[fct] {
					e.globalFactSeen[fct] = true
					e.decls = append(e.decls, "(assert "+fct+")")
				}
			}
		}
		return t
	}
	bail("loadLoc")
	return ""
}

// loadStruct reads a whole struct through a reference.
func (f *frame) loadStruct(ref string, t types.Type, h Heap) string {
	e := f.enc
	si := e.R.structOf(t)
	st := t.Underlying().(*types.Struct)
	parts := []string{"(mk-" + si.name}
	if st.NumFields() == 0 {
		return "mk-" + si.name
	}
	for i := 0; i < st.NumFields(); i++ {
		key, sort := e.fieldHeapKey(t, i)
		parts = append(parts, fmt.Sprintf("(select %s %s)", e.heapGet(h, key, sort), ref))
	}
	return strings.Join(parts, " ") + ")"
}

func (f *frame) storeStruct(ref string, t types.Type, val string, h Heap) {
	e := f.enc
	si := e.R.structOf(t)
	st := t.Underlying().(*types.Struct)
	for i := 0; i < st.NumFields(); i++ {
		key, sort := e.fieldHeapKey(t, i)
		cur := e.heapGet(h, key, sort)
		e.heapSet(h, key, sort, fmt.Sprintf("(store %s %s (%s %s))", cur, ref, si.fields[i], val))
	}
}

// updatePath rebuilds struct value cur (of type t) with the nested field path replaced by val.
func (e *FnEnc) updatePath(cur string, t types.Type, path []int, val string) string {
	if len(path) == 0 {
		return val
	}
	si := e.R.structOf(t)
	st := t.Underlying().(*types.Struct)
	parts := []string{"(mk-" + si.name}
	for i := 0; i < st.NumFields(); i++ {
		sel := fmt.Sprintf("(%s %s)", si.fields[i], cur)
		if i == path[0] {
			parts = append(parts, e.updatePath(sel, st.Field(i).Type(), path[1:], val))
		} else {
			parts = append(parts, sel)
		}
	}
	return strings.Join(parts, " ") + ")"
}

func (f *frame) storeLoc(l *Loc, val string, h Heap) {
	e := f.enc
	switch l.kind {
	case locField:
		key, sort := e.fieldHeapKey(l.owner, l.path[0])
		cur := e.heapGet(h, key, sort)
		ft := l.owner.Underlying().(*types.Struct).Field(l.path[0]).Type()
		nv := val
		if len(l.path) > 1 {
			nv = e.updatePath(fmt.Sprintf("(select %s %s)", cur, l.base), ft, l.path[1:], val)
		}
		e.heapSet(h, key, sort, fmt.Sprintf("(store %s %s %s)", cur, l.base, nv))
	case locElem:
		key, sort := e.elemHeapKey(l.elemT)
		cur := e.heapGet(h, key, sort)
		e.heapSet(h, key, sort, fmt.Sprintf("(store %s %s (store (select %s %s) %s %s))", cur, l.base, cur, l.base, l.idx, val))
	case locCell:
		if _, ok := l.elemT.Underlying().(*types.Struct); ok {
			f.storeStruct(l.base, l.elemT, val, h)
			return
		}
		if arr, ok := l.elemT.Underlying().(*types.Array); ok {
			key, sort := e.elemHeapKey(arr.Elem())
			cur := e.heapGet(h, key, sort)
			e.heapSet(h, key, sort, fmt.Sprintf("(store %s %s %s)", cur, l.base, val))
			return
		}
		key, sort := e.cellHeapKey(l.elemT)
		cur := e.heapGet(h, key, sort)
		e.heapSet(h, key, sort, fmt.Sprintf("(store %s %s %s)", cur, l.base, val))
	case locGlobal:
		key := "G_" + mangle(l.global.Pkg.Pkg.Name()+"."+l.global.Name())
		if l.idx != "" {
			srt := e.R.sortOf(l.owner)
			cur := e.heapGet(h, key, srt)
			e.heapSet(h, key, srt, fmt.Sprintf("(store %s %s %s)", cur, l.idx, val))
			return
		}
		e.heapGet(h, key, e.R.sortOf(l.elemT))
		e.heapSet(h, key, e.R.sortOf(l.elemT), val)
	default:
		bail("storeLoc")
	}
}

// ---------------------------------------------------------------------------
// source text helpers
// ---------------------------------------------------------------------------

func (e *FnEnc) posOf(p token.Pos) string {
	if !p.IsValid() {
		return ""
	}
	pos := e.E.L.Prog.Fset.Position(p)
	return fmt.Sprintf("%s:%d", strings.TrimPrefix(pos.Filename, repoDir+"/"), pos.Line)
}

// srcText prints the smallest AST expression of kind want that starts/contains pos.
func (e *FnEnc) srcText(fn *ssa.Function, pos token.Pos, want string) string {
	if !pos.IsValid() {
		return ""
	}
	file := e.E.astFileFor(pos)
	if file == nil {
		return ""
	}
	var best ast.Node
	ast.Inspect(file, func(n ast.Node) bool {
		if n == nil {
			return false
		}
		if pos < n.Pos() || pos >= n.End() {
			return false
		}
		ok := false
		switch x := n.(type) {
		case *ast.IndexExpr:
			ok = want == "index" && (x.Lbrack == pos || x.Pos() == pos)
		case *ast.SliceExpr:
			ok = want == "slice" && (x.Lbrack == pos || x.Pos() == pos)
		case *ast.SelectorExpr:
			ok = want == "sel" && (x.Sel.Pos() == pos || x.Pos() == pos)
		case *ast.StarExpr:
			ok = want == "star" && x.Star == pos
		case *ast.TypeAssertExpr:
			ok = want == "assert" && (x.Lparen == pos || x.Pos() == pos)
		case *ast.BinaryExpr:
			ok = want == "binary" && x.OpPos == pos
		case *ast.CallExpr:
			ok = want == "call" && (x.Lparen == pos || x.Pos() == pos)
		}
		if ok {
			best = n
		}
		return true
	})
	if best == nil {
		return ""
	}
	var b bytes.Buffer
	printer.Fprint(&b, e.E.L.Prog.Fset, best)
	s := strings.Join(strings.Fields(b.String()), " ")
	if len(s) > 90 {
		s = s[:90]
	}
	return s
}

// ---------------------------------------------------------------------------
// constants
// ---------------------------------------------------------------------------

func (e *FnEnc) constTerm(c *ssa.Const) SV {
	t := c.Type()
	sv := SV{t: t}
	if c.Value == nil { // zero value / nil
		sv.term = e.zeroValue(t)
		return sv
	}
	sv.term = e.constValTerm(c.Value, t)
	return sv
}

func (e *FnEnc) constValTerm(v constant.Value, t types.Type) string {
	s := e.R.sortOf(t)
	switch {
	case s == "Bool":
		if constant.BoolVal(v) {
			return "true"
		}
		return "false"
	case isBVSort(s):
		x, ok := constant.Val(constant.ToInt(v)).(*big.Int)
		if !ok {
			i64, _ := constant.Int64Val(constant.ToInt(v))
			x = big.NewInt(i64)
		}
		return bvLitBig(x, bitsOfSort(s))
	case isFloatSort(s):
		f, _ := constant.Float64Val(constant.ToFloat(v))
		return fpLit(f, s)
	case s == "Str":
		return e.R.strConst(constant.StringVal(v))
	}
	bail("constant of sort %s", s)
	return ""
}

func (e *FnEnc) zeroValue(t types.Type) string {
	s := e.R.sortOf(t)
	switch {
	case s == "Bool":
		return "false"
	case isBVSort(s):
		return bvLit(0, bitsOfSort(s))
	case isFloatSort(s):
		return fpLit(0, s)
	case s == "Str":
		return e.R.strConst("")
	case s == "Int":
		return "0"
	case s == "Slice":
		return "nil-slice"
	case s == "Iface":
		return "I_nil"
	}
	if si, ok := e.R.structs[s]; ok {
		if len(si.fields) == 0 {
			return "mk-" + si.name
		}
		parts := []string{"(mk-" + si.name}
		for i := 0; i < si.st.NumFields(); i++ {
			parts = append(parts, e.zeroValue(si.st.Field(i).Type()))
		}
		return strings.Join(parts, " ") + ")"
	}
	if strings.HasPrefix(s, "(Array") {
		arr := t.Underlying().(*types.Array)
		return e.constArray(s, e.zeroValue(arr.Elem()))
	}
	bail("zero value of sort %s", s)
	return ""
}

// ---------------------------------------------------------------------------
// function encoding
// ---------------------------------------------------------------------------

func isSigned(t types.Type) bool {
	if b, ok := t.Underlying().(*types.Basic); ok {
		return b.Info()&types.IsUnsigned == 0
	}
	return true
}

func (e *FnEnc) newFrame(fn *ssa.Function, prefix string) *frame {
	return &frame{enc: e, fn: fn, prefix: prefix, vals: map[ssa.Value]SV{},
		reach: map[*ssa.BasicBlock]string{}, heapOut: map[*ssa.BasicBlock]Heap{},
		pcOut: map[*ssa.BasicBlock]string{}, namedVals: map[string]ssa.Value{}, ghostRetTypes: map[int]types.Type{}}
}

func (f *frame) name(v ssa.Value) string {
	return f.prefix + v.Name()
}

// get returns the symbolic value of an SSA operand.
func (f *frame) get(v ssa.Value) SV {
	if sv, ok := f.vals[v]; ok {
		return sv
	}
	switch x := v.(type) {
	case *ssa.Const:
		return f.enc.constTerm(x)
	case *ssa.Global:
		return SV{t: x.Type(), loc: &Loc{kind: locGlobal, global: x, elemT: x.Type().(*types.Pointer).Elem()}}
	case *ssa.Function:
		return SV{t: x.Type(), term: f.enc.funcRef(x)}
	case *ssa.Builtin:
		return SV{t: x.Type(), term: "0"}
	case *ssa.FreeVar:
		// captured variable of a closure: unconstrained
		n, inv := f.enc.havoc(f.prefix+"free_"+x.Name(), x.Type())
		_ = inv
		sv := SV{t: x.Type(), term: n}
		f.vals[v] = sv
		return sv
	}
	bail("use of undefined ssa value %s (%T) in %s", v.Name(), v, f.fn.Name())
	return SV{}
}

// globalAddr: the address of a package-level struct variable as a reference constant
// (positive, distinct from every other global's address).
func (e *FnEnc) globalAddr(g *ssa.Global) string {
	name := "gaddr!" + mangle(g.Pkg.Pkg.Name()+"."+g.Name())
	e.R.extra(fmt.Sprintf("(declare-const %s Int)", name))
	e.R.extra(fmt.Sprintf("(assert (> %s 0))", name))
	if e.gaddrs == nil {
		e.gaddrs = map[string]bool{}
	}
	if !e.gaddrs[name] {
		for other := range e.gaddrs {
			e.R.extra(fmt.Sprintf("(assert (not (= %s %s)))", name, other))
		}
		e.gaddrs[name] = true
	}
	return name
}

func (e *FnEnc) funcRef(fn *ssa.Function) string {
	name := "fn!" + mangle(funcKey(fn))
	e.R.extra(fmt.Sprintf("(declare-const %s Int)", name))
	e.R.extra(fmt.Sprintf("(assert (> %s 0))", name))
	return name
}

// scalar returns the SMT term of an operand that must not be an address.
func (f *frame) scalar(v ssa.Value) string {
	sv := f.get(v)
	if sv.loc != nil {
		if sv.loc.kind == locGlobal {
			if _, isStruct := sv.loc.elemT.Underlying().(*types.Struct); isStruct {
				return f.enc.globalAddr(sv.loc.global)
			}
		}
		if sv.loc.kind == locCell {
			return sv.loc.base
		}
		// pointer into a struct / slice used as a value: not representable as a reference
		bail("address value %s used as first-class pointer in %s", v.Name(), f.fn.Name())
	}
	if sv.tuple != nil {
		bail("tuple used as scalar")
	}
	return sv.term
}

func (f *frame) set(v ssa.Value, term string) {
	f.vals[v] = SV{t: v.Type(), term: term}
}

// defineVal defines an SSA value as a named SMT constant.
func (f *frame) defineVal(v ssa.Value, term string) {
	s := f.enc.R.sortOf(v.Type())
	n := f.enc.define(f.name(v), s, term)
	f.set(v, n)
}

func (f *frame) havocVal(v ssa.Value) {
	n, inv := f.enc.havoc(f.name(v), v.Type())
	f.set(v, n)
	f.assume(inv)
}

func (f *frame) assume(c string) {
	if c == "true" || c == "" {
		return
	}
	n := f.enc.define(f.enc.fresh(f.prefix+"pc"), "Bool", and(f.curPC, c))
	f.curPC = n
}

func (f *frame) oblige(kind, label, cond, text string, pos token.Pos) {
	e := f.enc
	if e.C != nil && e.C.NoSafety && (strings.HasPrefix(kind, "safety") || kind == "foreign") {
		return // function is under contract for other clauses only
	}
	if e.safetyCount == nil {
		e.safetyCount = map[string]int{}
	}
	fnKey := funcKey(f.fn)
	if e.top != nil && e.top.fn != nil && e.top.fn != f.fn {
		// obligation of an inlined callee: it belongs to the function under proof (the same
		// callee inlined into another function yields a different obligation)
		inl := fnKey
		fnKey = funcKey(e.top.fn)
		if label != "" {
			label = inl + ": " + label
		} else {
			label = inl
		}
	}
	base := fmt.Sprintf("%s#%s", fnKey, kind)
	if label != "" {
		base += "[" + label + "]"
	}
	e.safetyCount[base]++
	name := base
	if e.safetyCount[base] > 1 {
		name = fmt.Sprintf("%s~%d", base, e.safetyCount[base])
	}
	pcTerm := f.curPC
	if len(e.pendingLoads) > 0 && e.top != nil && e.top.contract.AssumeLoads != "" {
		// the predicate may range over the dynamic types known so far, so it is rendered
		// when the obligation is emitted
		sf := e.E.CS.Specs[e.top.contract.AssumeLoads]
		if sf == nil || len(sf.Params) != 1 {
			cfail("assume_loads: no unary spec %q", e.top.contract.AssumeLoads)
		}
		var cs []string
		for _, v := range e.pendingLoads {
			ctx := &evalCtx{f: f, pkg: e.E.typesPkg(sf.Pkg), bind: map[string]SV{sf.Params[0].Name: v}, heap: f.curHeap, what: "assume_loads"}
			cs = append(cs, ctx.evalBoolText(sf.Body))
		}
		pcTerm = and(append([]string{pcTerm}, cs...)...)
	}
	o := &Obl{Name: name, Kind: kind, Func: fnKey, PC: pcTerm, Cond: cond, NDecls: len(e.decls),
		Pos: e.posOf(pos), Text: text, enc: e, Trivial: cond == "true"}
	e.obls = append(e.obls, o)
}

// analyseLoops finds back edges (target dominates source) and the blocks of each natural loop.
func (f *frame) analyseLoops() {
	f.backEdges = map[[2]int]bool{}
	f.loopHeads = map[int]*loopInfo{}
	fn := f.fn
	for _, b := range fn.Blocks {
		for _, s := range b.Succs {
			if s.Dominates(b) {
				f.backEdges[[2]int{b.Index, s.Index}] = true
				li := f.loopHeads[s.Index]
				if li == nil {
					li = &loopInfo{head: s, blocks: map[int]bool{s.Index: true}}
					f.loopHeads[s.Index] = li
				}
				// natural loop body: nodes that reach b without passing through s
				stack := []*ssa.BasicBlock{b}
				for len(stack) > 0 {
					n := stack[len(stack)-1]
					stack = stack[:len(stack)-1]
					if li.blocks[n.Index] {
						continue
					}
					li.blocks[n.Index] = true
					stack = append(stack, n.Preds...)
				}
			}
		}
	}
	// ordinals in source order (by position of first instruction with a position, fall back to index)
	var heads []*loopInfo
	for _, li := range f.loopHeads {
		heads = append(heads, li)
	}
	sort.Slice(heads, func(i, j int) bool {
		pi, pj := blockPos(heads[i].head), blockPos(heads[j].head)
		if pi != pj {
			return pi < pj
		}
		return heads[i].head.Index < heads[j].head.Index
	})
	for i, li := range heads {
		li.ord = i + 1
	}
}

func blockPos(b *ssa.BasicBlock) token.Pos {
	// position of a loop: smallest valid position among the instructions of the head block
	best := token.NoPos
	for _, in := range b.Instrs {
		p := in.Pos()
		if p.IsValid() && (best == token.NoPos || p < best) {
			best = p
		}
	}
	if best == token.NoPos {
		for _, s := range b.Succs {
			for _, in := range s.Instrs {
				p := in.Pos()
				if p.IsValid() && (best == token.NoPos || p < best) {
					best = p
				}
			}
		}
	}
	return best
}

// topoOrder returns blocks in reverse postorder of the CFG without back edges.
func (f *frame) topoOrder() []*ssa.BasicBlock {
	seen := map[int]bool{}
	var order []*ssa.BasicBlock
	var visit func(b *ssa.BasicBlock)
	visit = func(b *ssa.BasicBlock) {
		if seen[b.Index] {
			return
		}
		seen[b.Index] = true
		for _, s := range b.Succs {
			if f.backEdges[[2]int{b.Index, s.Index}] {
				continue
			}
			visit(s)
		}
		order = append(order, b)
	}
	visit(f.fn.Blocks[0])
	for i, j := 0, len(order)-1; i < j; i, j = i+1, j-1 {
		order[i], order[j] = order[j], order[i]
	}
	return order
}

// edgeCond is the condition under which control goes from block p to successor s.
func (f *frame) edgeCond(p *ssa.BasicBlock, s *ssa.BasicBlock, succIdx int) string {
	last := p.Instrs[len(p.Instrs)-1]
	if iff, ok := last.(*ssa.If); ok {
		c := f.scalar(iff.Cond)
		if p.Succs[0] == p.Succs[1] {
			return "true"
		}
		if succIdx == 0 {
			return c
		}
		return not(c)
	}
	return "true"
}

// mergeHeaps joins the heaps of incoming edges by ite on the edge conditions.
func (f *frame) mergeHeaps(conds []string, heaps []Heap) Heap {
	e := f.enc
	if len(heaps) == 1 {
		return heaps[0].clone()
	}
	keys := map[string]bool{}
	epochs := map[string]bool{}
	for _, h := range heaps {
		for k := range h {
			if k != "!epoch" {
				keys[k] = true
			}
		}
		epochs[h["!epoch"]] = true
	}
	var ks []string
	for k := range keys {
		ks = append(ks, k)
	}
	sort.Strings(ks)
	out := Heap{}
	if len(epochs) > 1 {
		out["!epoch"] = e.fresh("epoch")
	} else if ep, ok := heaps[0]["!epoch"]; ok {
		out["!epoch"] = ep
	}
	for _, k := range ks {
		same := true
		var first string
		for i, h := range heaps {
			v, ok := h[k]
			if !ok {
				v = e.epochName(h, k)
			}
			if i == 0 {
				first = v
			} else if v != first {
				same = false
			}
		}
		if same {
			out[k] = first
			continue
		}
		sortS := e.R.heapDecl[k]
		if sortS == "" {
			// never read or written with a known sort: only pending havocs differ
			out[k] = "?" + e.fresh(k)
			continue
		}
		for i := range heaps {
			if v, ok := heaps[i][k]; ok && strings.HasPrefix(v, "?") {
				e.heapGet(heaps[i], k, sortS)
			}
		}
		term := ""
		for i := len(heaps) - 1; i >= 0; i-- {
			v, ok := heaps[i][k]
			if !ok {
				v = e.epochName(heaps[i], k)
			}
			if term == "" {
				term = v
			} else {
				term = ite(conds[i], v, term)
			}
		}
		out[k] = e.define(e.fresh(k), sortS, term)
	}
	return out
}

// encodeBody runs the symbolic encoding of fn's body.  Parameters are already bound.
func (f *frame) encodeBody(entryPC string, entryHeap Heap) {
	fn := f.fn
	e := f.enc
	if len(fn.Blocks) == 0 {
		bail("function %s has no body", fn.Name())
	}
	if fn.Recover != nil {
		e.note("recover block of " + funcKey(fn) + " not encoded (panics recovered by defers are outside the modelled exits)")
	}
	f.analyseLoops()
	order := f.topoOrder()
	f.entryHeap = entryHeap.clone()
	for _, b := range order {
		f.curBlock = b
		if f == f.enc.top {
			f.enc.escapeBlock = b
		}
		var reach string
		var heap Heap
		li := f.loopHeads[b.Index]
		if b.Index == 0 {
			reach = entryPC
			heap = entryHeap.clone()
		} else {
			var conds []string
			var heaps []Heap
			var preds []*ssa.BasicBlock
			for _, p := range b.Preds {
				if f.backEdges[[2]int{p.Index, b.Index}] {
					continue
				}
				pc, ok := f.pcOut[p]
				if !ok {
					continue // unreachable predecessor (e.g. recover block)
				}
				for si, s := range p.Succs {
					if s == b {
						conds = append(conds, and(pc, f.edgeCond(p, b, si)))
						heaps = append(heaps, f.heapOut[p])
						preds = append(preds, p)
						break
					}
				}
			}
			if len(conds) == 0 {
				continue // unreachable block
			}
			reach = e.define(fmt.Sprintf("%sreach.%d", f.prefix, b.Index), "Bool", or(conds...))
			heap = f.mergeHeaps(conds, heaps)
			// phi nodes
			for _, in := range b.Instrs {
				phi, ok := in.(*ssa.Phi)
				if !ok {
					break
				}
				f.encodePhi(phi, b, preds, conds)
			}
		}
		f.curPC = reach
		f.curHeap = heap
		if li != nil {
			f.loopHead(li)
		}
		for _, in := range b.Instrs {
			if _, ok := in.(*ssa.Phi); ok {
				continue
			}
			f.curInstr = in
			f.instr(in)
		}
		f.curInstr = nil
		f.pcOut[b] = f.curPC
		f.heapOut[b] = f.curHeap
		// back edges out of this block: invariant preservation
		for si, s := range b.Succs {
			if f.backEdges[[2]int{b.Index, s.Index}] {
				f.backEdge(b, s, si)
			}
		}
	}
}

func (f *frame) encodePhi(phi *ssa.Phi, b *ssa.BasicBlock, preds []*ssa.BasicBlock, conds []string) {
	if phi.Comment != "" {
		f.namedVals[phi.Comment] = phi
	}
	// edges in the order of b.Preds; preds holds the forward ones
	var terms []string
	var cs []string
	for i, p := range preds {
		for k, bp := range b.Preds {
			if bp == p {
				sv := f.get(phi.Edges[k])
				if sv.loc != nil && sv.loc.kind == locGlobal && sv.loc.idx == "" {
					if _, isStruct := sv.loc.elemT.Underlying().(*types.Struct); isStruct {
						// the address of a package-level struct variable is an ordinary reference
						sv = SV{t: sv.t, term: f.enc.globalAddr(sv.loc.global)}
					}
				}
				if sv.loc != nil || sv.tuple != nil {
					bail("phi over address/tuple in %s", f.fn.Name())
				}
				terms = append(terms, sv.term)
				cs = append(cs, conds[i])
				break
			}
		}
	}
	term := ""
	for i := len(terms) - 1; i >= 0; i-- {
		if term == "" {
			term = terms[i]
		} else {
			term = ite(cs[i], terms[i], term)
		}
	}
	f.defineVal(phi, term)
}

// loopHead: havoc everything the loop may change, assume the invariant.
// inv.init obligations are emitted first with the values flowing in from outside.
func (f *frame) loopHead(li *loopInfo) {
	e := f.enc
	b := li.head
	f.curLoop = li
	defer func() { f.curLoop = nil }()
	invs := f.loopInvariants(li)
	// inv.init: phis are already defined from the forward edges
	for i, inv := range invs {
		c := f.evalContractBool(inv, f.curHeap, nil, nil)
		f.oblige(fmt.Sprintf("inv.init@%d.%d", li.ord, i+1), "", c, inv.Text, token.NoPos)
	}
	// the function's frame clauses are loop invariants of every loop (proved like any other)
	hasFrame := f.contract != nil && (len(f.contract.Preserves) > 0 || len(f.contract.OnlyAt) > 0) && f.parent == nil
	if hasFrame {
		f.frameOblige(fmt.Sprintf("inv.init@%d.frame", li.ord), "", "frame clauses (preserves / writes_only_at) hold at the loop head", f.curHeap, token.NoPos)
	}
	// built-in invariant of go/ssa's range-over-slice loops (proved like any other)
	for _, in := range b.Instrs {
		if phi, ok := in.(*ssa.Phi); ok {
			if inv := f.rangeInv(li, phi, f.vals[phi].term); inv != "" {
				f.oblige(fmt.Sprintf("inv.init@%d.range", li.ord), "", inv, "-1 <= rangeindex < len (built-in)", token.NoPos)
			}
		}
	}
	// havoc phis
	for _, in := range b.Instrs {
		phi, ok := in.(*ssa.Phi)
		if !ok {
			break
		}
		n, inv := e.havoc(f.name(phi)+"!loop", phi.Type())
		f.set(phi, n)
		f.assume(inv)
		if inv := f.rangeInv(li, phi, n); inv != "" {
			f.assume(inv)
		}
	}
	// havoc heap arrays written in the loop
	f.inLoopHavoc = true
	defer func() { f.inLoopHavoc = false }()
	// keys that every call with unknown effects inside the loop declares preserved (and
	// that nothing else in the loop writes) keep their value at the head
	keepKeys := f.loopPreserved(li)
	preHavoc := f.curHeap.clone()
	for _, key := range f.loopWrites(li) {
		if key == "*" {
			f.havocAllHeap()
			continue
		}
		if key == "*dyn" {
			ws := map[string]bool{}
			for _, k := range f.loopWrites(li) {
				ws[k] = true
			}
			f.havocDynamic(ws)
			break
		}
		sortS, ok := e.R.heapDecl[key]
		if !ok {
			continue // never read so far: declare lazily through heapGet at first use after bump
		}
		if e.E.stableKeys()[key] != nil {
			continue
		}
		f.curHeap[key] = e.declare(e.fresh(key), sortS)
	}
	// havocAllHeap / havocDynamic give the function's own unescaped allocations their
	// pre-havoc contents back (no callee can reach them) - but the loop's OWN stores can:
	// every array a store, map update, append, copy or delete of the loop body writes is
	// forgotten here, local allocations included
	direct := map[string]bool{}
	for _, blk := range f.fn.Blocks {
		if !li.blocks[blk.Index] {
			continue
		}
		for _, in := range blk.Instrs {
			switch x := in.(type) {
			case *ssa.Store, *ssa.MapUpdate:
				e.E.instrWrites(e, in, direct)
			case *ssa.Call:
				if _, isB := x.Call.Value.(*ssa.Builtin); isB {
					e.E.instrWrites(e, in, direct)
				}
			}
		}
	}
	var dks []string
	for k := range direct {
		dks = append(dks, k)
	}
	sort.Strings(dks)
	for _, key := range dks {
		sortS, ok := e.R.heapDecl[key]
		if !ok || e.E.stableKeys()[key] != nil {
			continue
		}
		f.curHeap[key] = e.declare(e.fresh(key), sortS)
	}
	// ghost state of "calls" clauses: an event that can happen in the loop may have happened
	// any number of times before this iteration
	f.havocLoopGhosts(li)
	for _, ks := range keepKeys {
		if v, ok := preHavoc[ks[0]]; ok && !strings.HasPrefix(v, "?") {
			f.curHeap[ks[0]] = v
		} else {
			f.curHeap[ks[0]] = e.heapGet(preHavoc, ks[0], ks[1])
		}
	}
	for i, inv := range invs {
		_ = i
		c := f.evalContractBool(inv, f.curHeap, nil, nil)
		f.assume(c)
	}
	if hasFrame {
		f.assume(f.preservedCond(f.curHeap))
	}
	// snapshot of the state at the head of this iteration: athead(k, e) in inner invariants
	if f.headHeaps == nil {
		f.headHeaps = map[int]Heap{}
	}
	f.headHeaps[li.ord] = f.curHeap.clone()
	// decreases: remember the variant value at the head
	f.recordVariant(li)
}

func (f *frame) backEdge(from, head *ssa.BasicBlock, succIdx int) {
	li := f.loopHeads[head.Index]
	cond := and(f.pcOut[from], f.edgeCond(from, head, succIdx))
	savePC, saveHeap, saveVals := f.curPC, f.curHeap, map[ssa.Value]SV{}
	f.curLoop = li
	defer func() { f.curLoop = nil }()
	f.curPC = cond
	f.curHeap = f.heapOut[from].clone()
	// substitute the phi values by the values on this edge
	for _, in := range head.Instrs {
		phi, ok := in.(*ssa.Phi)
		if !ok {
			break
		}
		saveVals[phi] = f.vals[phi]
		for k, bp := range head.Preds {
			if bp == from {
				f.vals[phi] = f.get(phi.Edges[k])
			}
		}
	}
	for i, inv := range f.loopInvariants(li) {
		c := f.evalContractBool(inv, f.curHeap, nil, nil)
		f.oblige(fmt.Sprintf("inv.preserve@%d.%d", li.ord, i+1), "", c, inv.Text, token.NoPos)
	}
	if f.contract != nil && f.isTop {
		// at_backedge@k: a per-iteration assertion in the state at the end of the iteration
		// (locals of the body keep the values of this iteration; the loop's phis are the
		// updated ones, so name the old value through the body's own variables)
		for i, cl := range f.contract.BackEdges[li.ord] {
			// a local names its value at the end of the iteration: the definition reaching
			// the end of the block the back edge leaves from (resolved as at a call site)
			saveInstr, saveCtx := f.curInstr, f.atCallCtx
			if n := len(from.Instrs); n > 0 {
				f.curInstr, f.atCallCtx = from.Instrs[n-1], true
			}
			// a local that is not computed on the way to this back edge stands for an
			// arbitrary value (the clause has to hold whatever it is: its hypotheses must
			// exclude such a path)
			extra := map[string]SV{}
			var c string
			for try := 0; try < 8; try++ {
				retry := ""
				func() {
					defer func() {
						if r := recover(); r != nil {
							if ce, isCE := r.(contractErr); isCE && strings.Contains(ce.msg, "unknown identifier") && f.isSourceVar(ce.msg) {
								i := strings.Index(ce.msg, "\"")
								j := i + 1 + strings.Index(ce.msg[i+1:], "\"")
								retry = ce.msg[i+1 : j]
								return
							}
							panic(r)
						}
					}()
					c = f.evalContractBool(cl, f.curHeap, extra, nil)
				}()
				if retry == "" {
					break
				}
				var vt types.Type
				for _, b := range f.fn.Blocks {
					for _, in := range b.Instrs {
						if d, ok := in.(*ssa.DebugRef); ok && !d.IsAddr {
							if id, ok := d.Expr.(*ast.Ident); ok && id.Name == retry && vt == nil {
								vt = d.X.Type()
							}
						}
					}
				}
				if vt == nil {
					cfail("at_backedge: cannot type the local %q", retry)
				}
				n, _ := f.enc.havoc(f.prefix+"any_"+retry, vt)
				extra[retry] = SV{t: vt, term: n}
			}
			f.curInstr, f.atCallCtx = saveInstr, saveCtx
			f.oblige(fmt.Sprintf("backedge@%d.%d", li.ord, i+1), "", c, cl.Text, token.NoPos)
			f.enc.obls[len(f.enc.obls)-1].Props = cl.Props
		}
	}
	if f.contract != nil && (len(f.contract.Preserves) > 0 || len(f.contract.OnlyAt) > 0) && f.parent == nil {
		f.frameOblige(fmt.Sprintf("inv.preserve@%d.frame", li.ord), "", "frame clauses (preserves / writes_only_at) hold at the loop head", f.curHeap, token.NoPos)
	}
	for _, in := range head.Instrs {
		if phi, ok := in.(*ssa.Phi); ok {
			if inv := f.rangeInv(li, phi, f.vals[phi].term); inv != "" {
				f.oblige(fmt.Sprintf("inv.preserve@%d.range", li.ord), "", inv, "-1 <= rangeindex < len (built-in)", token.NoPos)
			}
		}
	}
	f.checkVariant(li)
	for k, v := range saveVals {
		f.vals[k] = v
	}
	f.curPC, f.curHeap = savePC, saveHeap
}

// loopPreserved: heap keys that survive the loop although it contains calls with unknown
// effects ("*", "*dyn"): every such call goes to a callee (or slot) whose contract lists
// the key under preserves, and no instruction of the loop writes the key otherwise.
func (f *frame) loopPreserved(li *loopInfo) [][2]string {
	E := f.enc.E
	var common map[string][2]string
	direct := map[string]bool{}
	for _, b := range f.fn.Blocks {
		if !li.blocks[b.Index] {
			continue
		}
		for _, in := range b.Instrs {
			w := map[string]bool{}
			E.instrWrites(f.enc, in, w)
			if !w["*"] && !w["*dyn"] {
				for k := range w {
					direct[k] = true
				}
				continue
			}
			var fc *FuncContract
			var pkg *types.Package
			if ci, ok := in.(ssa.CallInstruction); ok {
				c := ci.Common()
				if callee := c.StaticCallee(); callee != nil && callee.Pkg != nil {
					fc, pkg = E.CS.Funcs[funcKey(callee)], callee.Pkg.Pkg
				} else if callee == nil {
					if fc = f.slotContract(c); fc != nil {
						pkg = E.typesPkg(fc.Pkg)
					}
				}
			}
			if fc == nil || len(fc.Preserves) == 0 || pkg == nil {
				return nil
			}
			mine := map[string][2]string{}
			for _, ks := range f.enc.fieldKeys(fc.Preserves, pkg) {
				mine[ks[0]] = ks
			}
			if common == nil {
				common = mine
			} else {
				for k := range common {
					if _, ok := mine[k]; !ok {
						delete(common, k)
					}
				}
			}
			for k := range w {
				if k != "*" && k != "*dyn" {
					if _, ok := mine[k]; !ok {
						direct[k] = true
					}
				}
			}
		}
	}
	var out [][2]string
	var names []string
	for k := range common {
		names = append(names, k)
	}
	sort.Strings(names)
	for _, k := range names {
		if !direct[k] {
			out = append(out, common[k])
		}
	}
	return out
}

func (f *frame) pureCalleeKey(key string) bool {
	fc := f.enc.E.CS.Funcs[key]
	if fc == nil || fc.PureIf == nil {
		return false
	}
	for _, k := range f.enc.top.contract.PureCalls {
		if k == key {
			return true
		}
	}
	return false
}

// loopWrites: heap keys possibly written inside the loop ("*" = everything).
// havocLoopGhosts: at the head of a loop, the flag of every calls clause whose callee can be
// called in the loop (directly, or through a callee taken inline) may already be set, and its
// recorded result may be that of any earlier matching call.
func (f *frame) havocLoopGhosts(li *loopInfo) {
	e := f.enc
	top := e.top
	if top == nil || top.contract == nil || len(top.contract.Calls) == 0 {
		return
	}
	names := map[string]bool{}
	var scan func(fn *ssa.Function, only map[int]bool, depth int)
	scan = func(fn *ssa.Function, only map[int]bool, depth int) {
		if depth > 6 {
			names["*"] = true
			return
		}
		for _, b := range fn.Blocks {
			if only != nil && !only[b.Index] {
				continue
			}
			for _, in := range b.Instrs {
				if mc, ok := in.(*ssa.MakeClosure); ok {
					if cf, ok := mc.Fn.(*ssa.Function); ok {
						scan(cf, nil, depth+1)
					}
					continue
				}
				ci, ok := in.(ssa.CallInstruction)
				if !ok {
					continue
				}
				c := ci.Common()
				if _, isB := c.Value.(*ssa.Builtin); isB {
					continue
				}
				if c.IsInvoke() {
					if n, ok := c.Value.Type().(*types.Named); ok && n.Obj().Pkg() != nil {
						names[n.Obj().Pkg().Name()+"."+n.Obj().Name()+"."+c.Method.Name()] = true
					}
					continue
				}
				callee := c.StaticCallee()
				if callee == nil {
					names["*"] = true // a function value: its body may be taken inline
					continue
				}
				names[funcKey(callee)] = true
				if callee.Pkg != nil {
					pkg := callee.Pkg.Pkg.Path()
					n := pkg + "." + callee.Name()
					if recv := callee.Signature.Recv(); recv != nil {
						n = pkg + ".(" + typeName(recv.Type()) + ")." + callee.Name()
					}
					names[n] = true
				}
				if fc := e.E.CS.Funcs[funcKey(callee)]; (fc != nil && fc.Inline) || callee.Parent() != nil {
					scan(callee, nil, depth+1)
				}
			}
		}
	}
	scan(f.fn, li.blocks, 0)
	for k, cs := range top.contract.Calls {
		if !names["*"] && !names[cs.Callee] {
			continue
		}
		gk := ghostCallKey(k)
		cur, ok := f.curHeap[gk]
		if !ok {
			cur = "false"
		}
		f.curHeap[gk] = e.define(e.fresh(gk), "Bool", or(cur, e.declare(e.fresh(gk+"!loop"), "Bool")))
		if cs.As != "" {
			ck := ghostCntKey(k)
			e.R.heapDecl[ck] = "(_ BitVec 64)"
			cnt, ok := f.curHeap[ck]
			if !ok {
				cnt = bvLit(0, 64)
			}
			n := e.declare(e.fresh(ck+"!loop"), "(_ BitVec 64)")
			// monotone, and far from wrapping (a count of 2^62 calls cannot be reached)
			f.assume(fmt.Sprintf("(and (bvsge %s %s) (bvslt %s #x4000000000000000))", n, cnt, n))
			f.curHeap[ck] = n
		}
		for hk, sortS := range e.R.heapDecl {
			if hk == ghostRetKey(k) || strings.HasPrefix(hk, ghostRetKey(k)+"!") {
				f.curHeap[hk] = e.declare(e.fresh(hk+"!loop"), sortS)
			}
		}
	}
}

func (f *frame) loopWrites(li *loopInfo) []string {
	set := map[string]bool{}
	for _, b := range f.fn.Blocks {
		if !li.blocks[b.Index] {
			continue
		}
		for _, in := range b.Instrs {
			if ci, ok := in.(ssa.CallInstruction); ok && f.enc.top != nil && f.enc.top.contract != nil {
				if callee := ci.Common().StaticCallee(); callee != nil && f.pureCalleeKey(funcKey(callee)) {
					continue // proved pure at every call site of this function (pure_calls)
				}
			}
			f.enc.E.instrWrites(f.enc, in, set)
		}
	}
	var ks []string
	for k := range set {
		ks = append(ks, k)
	}
	sort.Strings(ks)
	return ks
}

// havocAllHeap forgets everything about the heap: explicit entries are dropped and a new
// epoch is installed, so that every later first touch of an array yields a fresh constant.
func (f *frame) havocAllHeap() {
	f.wrote("call with unknown side effects")
	old := f.curHeap.clone()
	e := f.enc
	var ks []string
	for k := range f.curHeap {
		ks = append(ks, k)
	}
	sort.Strings(ks)
	for _, k := range ks {
		if strings.HasPrefix(k, "ghost!") || k == "!epoch" {
			continue
		}
		if e.E.stableKeys()[k] != nil {
			continue // stable field: never reassigned in existing objects
		}
		if sortS, ok := e.R.heapDecl[k]; ok && !strings.HasPrefix(f.curHeap[k], "?") {
			f.curHeap[k] = e.declare(e.fresh(k), sortS)
		} else {
			delete(f.curHeap, k)
		}
	}
	f.curHeap["!epoch"] = f.enc.fresh("epoch")
	f.restoreLocals(old, nil)
}

// restoreLocals: memory of non-escaping local allocations is not reachable by callees,
// so it keeps its contents across a havoc of the arrays it lives in.
func (f *frame) restoreLocals(old Heap, only map[string]bool) {
	e := f.enc
	for fr := f; fr != nil; fr = fr.parent {
		for _, la := range fr.locals {
			if e.escapedSeen[la.ref] && f.escapedOnSomePathTo(la.ref) {
				continue // visible to other code by now
			}
			var keys [][2]string
			switch u := la.t.Underlying().(type) {
			case *types.Struct:
				for i := 0; i < u.NumFields(); i++ {
					k, s := e.fieldHeapKey(la.t, i)
					keys = append(keys, [2]string{k, s})
				}
			case *types.Array:
				k, s := e.elemHeapKey(u.Elem())
				keys = append(keys, [2]string{k, s})
			case *types.Map:
				vk, vs, pk, ps := e.mapHeapKeys(u)
				keys = append(keys, [2]string{vk, vs}, [2]string{pk, ps})
			default:
				k, s := e.cellHeapKey(la.t)
				keys = append(keys, [2]string{k, s})
			}
			for _, ks := range keys {
				if only != nil && !only[ks[0]] {
					continue
				}
				ov, ok := old[ks[0]]
				if !ok || strings.HasPrefix(ov, "?") {
					continue
				}
				cur := e.heapGet(f.curHeap, ks[0], ks[1])
				e.heapSet(f.curHeap, ks[0], ks[1], fmt.Sprintf("(store %s %s (select %s %s))", cur, la.ref, ov, la.ref))
			}
		}
	}
}

// escapedOnSomePathTo: has the reference escaped at a program point from which the block being
// encoded can be reached (or in that block itself)?  An escape that happens only after the
// current point - the slice is stored into a record once the loop that fills it is done - has
// not made the memory reachable for the calls encoded here.
func (f *frame) escapedOnSomePathTo(ref string) bool {
	e := f.enc
	if f != e.top || f.curBlock == nil {
		return true
	}
	for _, b := range e.escapedAt[ref] {
		if b == nil || b == f.curBlock || reachesAvoiding(b, f.curBlock, nil) {
			return true
		}
	}
	return len(e.escapedAt[ref]) == 0
}

// rangeInv: for the hidden index phi of a range-over-slice/string loop
//
//	i = phi(-1, i+1); if i+1 < n ...
//
// the invariant -1 <= i < n (n is computed before the loop).
func (f *frame) rangeInv(li *loopInfo, phi *ssa.Phi, term string) string {
	if phi.Comment != "rangeindex" {
		return ""
	}
	var next ssa.Value
	for _, in := range li.head.Instrs {
		if b, ok := in.(*ssa.BinOp); ok {
			if b.Op == token.ADD && b.X == phi {
				next = b
			}
			if b.Op == token.LSS && next != nil && b.X == next {
				if bv, ok := f.vals[b.Y]; ok && bv.term != "" {
					return fmt.Sprintf("(and (bvsge %s #xffffffffffffffff) (bvslt %s %s))", term, term, bv.term)
				}
				if c, ok := b.Y.(*ssa.Const); ok {
					return fmt.Sprintf("(and (bvsge %s #xffffffffffffffff) (bvslt %s %s))", term, term, f.enc.constTerm(c).term)
				}
			}
		}
	}
	return ""
}

// constArray: the array with every element equal to val.  cvc5 accepts (as const ...) only
// for literal values; when val mentions a declared constant (string literals are declared
// constants) an unconstrained fresh array is used instead: the zeroed contents are then
// unknown to the proof, which is weaker but sound.
func (e *FnEnc) constArray(sort, val string) string {
	if strings.Contains(val, "strlit!") {
		return e.declare(e.fresh("zeroarr"), sort)
	}
	return fmt.Sprintf("((as const %s) %s)", sort, val)
}

// stripSelects removes every balanced "(select ...)" subterm from an SMT term.
func stripSelects(t string) string {
	for {
		i := strings.Index(t, "(select ")
		if i < 0 {
			return t
		}
		depth := 0
		j := i
		for ; j < len(t); j++ {
			if t[j] == '(' {
				depth++
			} else if t[j] == ')' {
				depth--
				if depth == 0 {
					break
				}
			}
		}
		if j >= len(t) {
			return t[:i]
		}
		t = t[:i] + "?" + t[j+1:]
	}
}
