package main

import (
	"fmt"
	"go/ast"
	"go/constant"
	"go/token"
	"go/types"
	"strconv"
	"strings"
)

// evalCtx is the environment in which a contract expression is evaluated.
type evalCtx struct {
	f       *frame
	pkg     *types.Package
	bind    map[string]SV
	heap    Heap
	oldHeap Heap
	oldBind map[string]SV
	lookup  func(name string) (SV, bool) // fallback resolution (loop variables, locals)
	noOpaqueDefs bool                    // assumption of a callee contract: opaque specs stay uninterpreted
	calleeSide   bool                    // the clause is a callee's (or slot's) postcondition assumed at a call site
	facts   *[]string                    // when set, defining equations of spec applications are collected here instead of being asserted globally
	depth   int
	what    string
}

type contractErr struct{ msg string }

func (c contractErr) Error() string { return c.msg }

func cfail(format string, a ...interface{}) {
	panic(contractErr{fmt.Sprintf(format, a...)})
}

// splitTop splits s at top-level occurrences of sep (outside parentheses/brackets/quotes).
func splitTop(s, sep string) []string {
	var parts []string
	depth := 0
	start := 0
	inStr := byte(0)
	for i := 0; i < len(s); i++ {
		c := s[i]
		if inStr != 0 {
			if c == '\\' {
				i++
			} else if c == inStr {
				inStr = 0
			}
			continue
		}
		switch c {
		case '"', '\'', '`':
			inStr = c
		case '(', '[', '{':
			depth++
		case ')', ']', '}':
			depth--
		default:
			if depth == 0 && strings.HasPrefix(s[i:], sep) {
				// do not split "<==>" when looking for "==>"
				if sep == "==>" && i > 0 && s[i-1] == '<' {
					continue
				}
				parts = append(parts, s[start:i])
				start = i + len(sep)
				i += len(sep) - 1
			}
		}
	}
	parts = append(parts, s[start:])
	return parts
}

// evalBoolText evaluates a contract formula (with ==>, <==>, forall) to an SMT Bool term.
func (c *evalCtx) evalBoolText(s string) string {
	s = strings.TrimSpace(s)
	if strings.HasPrefix(s, "forall ") || strings.HasPrefix(s, "exists ") {
		q := s[:6]
		rest := strings.TrimSpace(s[7:])
		idx := strings.Index(rest, "::")
		if idx < 0 {
			cfail("quantifier without :: in %q", s)
		}
		vs := strings.Fields(rest[:idx])
		if len(vs) != 2 {
			cfail("quantifier needs 'name type' in %q", s)
		}
		t := c.resolveType(vs[1])
		name := "q!" + vs[0]
		nb := map[string]SV{}
		for k, v := range c.bind {
			nb[k] = v
		}
		nb[vs[0]] = SV{t: t, term: name}
		c2 := *c
		c2.bind = nb
		body := c2.evalBoolText(rest[idx+2:])
		return fmt.Sprintf("(%s ((%s %s)) %s)", q, name, c.f.enc.R.sortOf(t), body)
	}
	if parts := splitTop(s, "<==>"); len(parts) > 1 {
		if len(parts) != 2 {
			cfail("chained <==> in %q", s)
		}
		return fmt.Sprintf("(= %s %s)", c.evalBoolText(parts[0]), c.evalBoolText(parts[1]))
	}
	if parts := splitTop(s, "==>"); len(parts) > 1 {
		// right associative
		res := c.evalBoolText(parts[len(parts)-1])
		for i := len(parts) - 2; i >= 0; i-- {
			res = implies(c.evalBoolText(parts[i]), res)
		}
		return res
	}
	// a parenthesised formula containing ==> inside: strip one level
	if strings.HasPrefix(s, "(") && matchingParen(s) == len(s)-1 && (strings.Contains(s, "==>") || strings.Contains(s, "forall ")) {
		return c.evalBoolText(s[1 : len(s)-1])
	}
	// conjunction/disjunction whose operands may contain ==> in parentheses
	if strings.Contains(s, "==>") || strings.Contains(s, "forall ") || strings.Contains(s, "exists ") {
		if parts := splitTop(s, "||"); len(parts) > 1 {
			var ts []string
			for _, p := range parts {
				ts = append(ts, c.evalBoolText(p))
			}
			return or(ts...)
		}
		if parts := splitTop(s, "&&"); len(parts) > 1 {
			var ts []string
			for _, p := range parts {
				ts = append(ts, c.evalBoolText(p))
			}
			return and(ts...)
		}
		if strings.HasPrefix(s, "!") {
			return not(c.evalBoolText(s[1:]))
		}
	}
	e, err := parseExprText(s)
	if err != nil {
		cfail("cannot parse %q: %v", s, err)
	}
	sv := c.eval(e)
	if c.f.enc.R.sortOf(sv.t) != "Bool" {
		cfail("formula %q is not boolean", s)
	}
	return sv.term
}

func matchingParen(s string) int {
	depth := 0
	for i := 0; i < len(s); i++ {
		switch s[i] {
		case '(':
			depth++
		case ')':
			depth--
			if depth == 0 {
				return i
			}
		}
	}
	return -1
}

func (c *evalCtx) resolveType(s string) types.Type {
	s = strings.TrimSpace(s)
	// imports are file-scoped and invisible to types.Eval at package scope: resolve
	// qualified names (with *, [] prefixes) through the package's import list
	switch {
	case strings.HasPrefix(s, "*"):
		if strings.Contains(s, ".") {
			return types.NewPointer(c.resolveType(s[1:]))
		}
	case strings.HasPrefix(s, "[]"):
		if strings.Contains(s, ".") {
			return types.NewSlice(c.resolveType(s[2:]))
		}
	default:
		if i := strings.Index(s, "."); i > 0 && !strings.ContainsAny(s, "[]*( ") {
			for _, imp := range c.pkg.Imports() {
				if imp.Name() == s[:i] {
					if tn, ok := imp.Scope().Lookup(s[i+1:]).(*types.TypeName); ok {
						return tn.Type()
					}
				}
			}
		}
	}
	tv, err := types.Eval(token.NewFileSet(), c.pkg, token.NoPos, s)
	if err != nil || tv.Type == nil {
		// try universe / qualified through imports of the package
		cfail("cannot resolve type %q in package %s: %v", s, c.pkg.Name(), err)
	}
	return tv.Type
}

func (c *evalCtx) typeOfExpr(e ast.Expr) types.Type {
	return c.resolveType(types.ExprString(e))
}

func isUntyped(t types.Type) bool {
	b, ok := t.(*types.Basic)
	return ok && b.Info()&types.IsUntyped != 0
}

// coerce materialises an untyped constant at type t.
func (c *evalCtx) coerce(sv SV, t types.Type) SV {
	if sv.cval == nil || !isUntyped(sv.t) {
		return sv
	}
	if isUntyped(t) {
		return sv
	}
	enc := c.f.enc
	s := enc.R.sortOf(t)
	switch {
	case isBVSort(s), isFloatSort(s), s == "Bool", s == "Str":
		return SV{t: t, term: enc.constValTerm(sv.cval, t)}
	case s == "Int", s == "Iface", s == "Slice":
		if sv.t.(*types.Basic).Kind() == types.UntypedNil {
			return SV{t: t, term: enc.zeroValue(t)}
		}
	}
	cfail("cannot use constant %v as %s", sv.cval, t)
	return sv
}

func (c *evalCtx) materialise(sv SV) SV {
	if sv.cval != nil && isUntyped(sv.t) {
		switch sv.t.(*types.Basic).Kind() {
		case types.UntypedInt, types.UntypedRune:
			return c.coerce(sv, types.Typ[types.Int])
		case types.UntypedFloat:
			return c.coerce(sv, types.Typ[types.Float64])
		case types.UntypedBool:
			return c.coerce(sv, types.Typ[types.Bool])
		case types.UntypedString:
			return c.coerce(sv, types.Typ[types.String])
		}
	}
	return sv
}

func (c *evalCtx) eval(e ast.Expr) SV {
	enc := c.f.enc
	switch x := e.(type) {
	case *ast.ParenExpr:
		return c.eval(x.X)
	case *ast.BasicLit:
		switch x.Kind {
		case token.INT, token.FLOAT, token.CHAR, token.STRING:
			v := constant.MakeFromLiteral(x.Value, x.Kind, 0)
			k := map[token.Token]types.BasicKind{token.INT: types.UntypedInt, token.FLOAT: types.UntypedFloat,
				token.CHAR: types.UntypedRune, token.STRING: types.UntypedString}[x.Kind]
			return SV{t: types.Typ[k], cval: v}
		}
	case *ast.Ident:
		return c.ident(x.Name)
	case *ast.UnaryExpr:
		if x.Op == token.AND {
			if id, ok := x.X.(*ast.Ident); ok {
				if sp := enc.E.L.SSA[c.pkg.Name()]; sp != nil {
					if g := sp.Var(id.Name); g != nil {
						return SV{t: g.Type(), term: enc.globalAddr(g)}
					}
				}
			}
			cfail("address-of is only supported for package-level struct variables")
		}
		v := c.eval(x.X)
		if v.cval != nil && isUntyped(v.t) && x.Op == token.SUB && v.t.(*types.Basic).Kind() == types.UntypedFloat && constant.Sign(v.cval) == 0 {
			// Go folds -0.0 to +0; in a specification the author means negative zero
			return SV{t: types.Typ[types.Float64], term: "(_ -zero 11 53)"}
		}
		if v.cval != nil && isUntyped(v.t) {
			if x.Op == token.NOT {
				return SV{t: v.t, cval: constant.MakeBool(!constant.BoolVal(v.cval))}
			}
			return SV{t: v.t, cval: constant.UnaryOp(x.Op, v.cval, 0)}
		}
		s := enc.R.sortOf(v.t)
		switch x.Op {
		case token.NOT:
			return SV{t: v.t, term: not(v.term)}
		case token.SUB:
			if isFloatSort(s) {
				return SV{t: v.t, term: fmt.Sprintf("(fp.neg %s)", v.term)}
			}
			return SV{t: v.t, term: fmt.Sprintf("(bvneg %s)", v.term)}
		case token.XOR:
			return SV{t: v.t, term: fmt.Sprintf("(bvnot %s)", v.term)}
		case token.ADD:
			return v
		case token.AND:
			cfail("address-of in contract")
		}
	case *ast.BinaryExpr:
		return c.binary(x)
	case *ast.SelectorExpr:
		return c.selector(x)
	case *ast.StarExpr:
		v := c.eval(x.X)
		pt, ok := v.t.Underlying().(*types.Pointer)
		if !ok {
			cfail("deref of non-pointer")
		}
		l := &Loc{kind: locCell, base: v.term, elemT: pt.Elem()}
		return SV{t: pt.Elem(), term: c.f.loadLoc(l, c.heap)}
	case *ast.IndexExpr:
		base := c.eval(x.X)
		switch t := base.t.Underlying().(type) {
		case *types.Slice:
			i := c.toInt64(c.eval(x.Index))
			key, sort := enc.elemHeapKey(t.Elem())
			return SV{t: t.Elem(), term: fmt.Sprintf("(select (select %s (sl-ref %s)) (bvadd (sl-off %s) %s))", enc.heapGet(c.heap, key, sort), base.term, base.term, i)}
		case *types.Basic:
			i := c.toInt64(c.eval(x.Index))
			return SV{t: types.Typ[types.Uint8], term: fmt.Sprintf("(sbyte %s %s)", base.term, i)}
		case *types.Map:
			k := c.coerce(c.eval(x.Index), t.Key())
			vk, vs, _, _ := enc.mapHeapKeys(t)
			return SV{t: t.Elem(), term: fmt.Sprintf("(select (select %s %s) %s)", enc.heapGet(c.heap, vk, vs), base.term, k.term)}
		case *types.Array:
			i := c.toInt64(c.eval(x.Index))
			return SV{t: t.Elem(), term: fmt.Sprintf("(select %s %s)", base.term, i)}
		}
		cfail("index of %s", base.t)
	case *ast.SliceExpr:
		base := c.eval(x.X)
		if enc.R.sortOf(base.t) == "Slice" && x.Max == nil {
			// s[lo:hi] of a slice, as the code computes it (same array, offset and capacity moved)
			sl := base.term
			lo := bvLit(0, 64)
			hi := fmt.Sprintf("(sl-len %s)", sl)
			if x.Low != nil {
				lo = c.toInt64(c.eval(x.Low))
			}
			if x.High != nil {
				hi = c.toInt64(c.eval(x.High))
			}
			return SV{t: base.t, term: fmt.Sprintf("(mk-slice (sl-ref %s) (bvadd (sl-off %s) %s) (bvsub %s %s) (bvsub (sl-cap %s) %s))", sl, sl, lo, hi, lo, sl, lo)}
		}
		if enc.R.sortOf(base.t) != "Str" {
			cfail("slice expression only on strings and slices in contracts")
		}
		lo := bvLit(0, 64)
		hi := fmt.Sprintf("(slen %s)", base.term)
		if x.Low != nil {
			lo = c.toInt64(c.eval(x.Low))
		}
		if x.High != nil {
			hi = c.toInt64(c.eval(x.High))
		}
		return SV{t: base.t, term: fmt.Sprintf("(ssub %s %s %s)", base.term, lo, hi)}
	case *ast.TypeAssertExpr:
		v := c.eval(x.X)
		t := c.typeOfExpr(x.Type)
		if _, isIface := t.Underlying().(*types.Interface); isIface {
			return SV{t: t, term: v.term}
		}
		ctor := enc.R.ifaceCtor(t)
		return SV{t: t, term: fmt.Sprintf("(v_%s %s)", strings.TrimPrefix(ctor, "I_"), v.term)}
	case *ast.CallExpr:
		return c.call(x)
	case *ast.CompositeLit:
		t := c.typeOfExpr(x.Type)
		st, ok := t.Underlying().(*types.Struct)
		if !ok {
			cfail("composite literal of non-struct type %s", t)
		}
		if len(x.Elts) == 0 {
			return SV{t: t, term: enc.zeroValue(t)}
		}
		si := enc.R.structOf(t)
		vals := make([]string, st.NumFields())
		for i := range vals {
			vals[i] = enc.zeroValue(st.Field(i).Type())
		}
		for _, el := range x.Elts {
			kv, ok := el.(*ast.KeyValueExpr)
			if !ok {
				cfail("composite literal needs field: value pairs")
			}
			name := kv.Key.(*ast.Ident).Name
			found := false
			for i := 0; i < st.NumFields(); i++ {
				if st.Field(i).Name() == name {
					v := c.eval(kv.Value)
					ft := st.Field(i).Type()
					if _, isIface := ft.Underlying().(*types.Interface); isIface && enc.R.sortOf(v.t) != "Iface" {
						v = c.materialise(v)
						v = SV{t: ft, term: fmt.Sprintf("(%s %s)", enc.R.ifaceCtor(v.t), v.term)}
					} else {
						v = c.materialise(c.coerce(v, ft))
					}
					vals[i] = v.term
					found = true
				}
			}
			if !found {
				cfail("no field %s in %s", name, t)
			}
		}
		return SV{t: t, term: "(mk-" + si.name + " " + strings.Join(vals, " ") + ")"}
	}
	cfail("unsupported contract expression %s (%T)", types.ExprString(e), e)
	return SV{}
}

func (c *evalCtx) toInt64(v SV) string {
	v = c.materialise(v)
	n := bitsOfSort(c.f.enc.R.sortOf(v.t))
	if n == 0 {
		cfail("integer expected, got %s", v.t)
	}
	if isSigned(v.t) {
		return sext(v.term, n, 64)
	}
	return zext(v.term, n, 64)
}

func (c *evalCtx) ident(name string) SV {
	enc := c.f.enc
	if i := strings.Index(name, "__nth"); i > 0 {
		name = name[:i] + "#" + name[i+5:]
	}
	switch name {
	case "true":
		return SV{t: types.Typ[types.Bool], term: "true"}
	case "false":
		return SV{t: types.Typ[types.Bool], term: "false"}
	case "nil":
		return SV{t: types.Typ[types.UntypedNil], cval: constant.MakeInt64(0)}
	}
	if v, ok := c.bind[name]; ok {
		return c.deref(v)
	}
	if c.lookup != nil {
		if v, ok := c.lookup(name); ok {
			return c.deref(v)
		}
	}
	if obj := c.pkg.Scope().Lookup(name); obj != nil {
		switch o := obj.(type) {
		case *types.Const:
			if isUntyped(o.Type()) {
				return SV{t: o.Type(), cval: o.Val()}
			}
			return SV{t: o.Type(), term: enc.constValTerm(o.Val(), o.Type())}
		case *types.Var:
			// package-level variable: current value in the heap
			key := "G_" + mangle(c.pkg.Name()+"."+name)
			if sp := enc.E.L.SSA[c.pkg.Name()]; sp != nil {
				if g := sp.Var(name); g != nil {
					if t, ok := enc.globalConstTerm(g); ok {
						return SV{t: o.Type(), term: t}
					}
					if enc.E.globalIsStable(g) {
						return SV{t: o.Type(), term: enc.stableGlobalTerm(g, key, o.Type())}
					}
				}
			}
			return SV{t: o.Type(), term: enc.heapGet(c.heap, key, enc.R.sortOf(o.Type()))}
		}
	}
	cfail("unknown identifier %q in %s", name, c.what)
	return SV{}
}

// deref: a bound name may denote an address-taken local (a cell); read it.
func (c *evalCtx) deref(v SV) SV {
	if v.loc != nil && v.loc.kind == locCell {
		return SV{t: v.loc.elemT, term: c.f.loadLoc(v.loc, c.heap)}
	}
	return v
}

func (c *evalCtx) binary(x *ast.BinaryExpr) SV {
	enc := c.f.enc
	if x.Op == token.LAND || x.Op == token.LOR {
		a, b := c.materialise(c.eval(x.X)), c.materialise(c.eval(x.Y))
		if x.Op == token.LAND {
			return SV{t: types.Typ[types.Bool], term: and(a.term, b.term)}
		}
		return SV{t: types.Typ[types.Bool], term: or(a.term, b.term)}
	}
	a, b := c.eval(x.X), c.eval(x.Y)
	if a.cval != nil && b.cval != nil && isUntyped(a.t) && isUntyped(b.t) {
		switch x.Op {
		case token.EQL, token.NEQ, token.LSS, token.LEQ, token.GTR, token.GEQ:
			return SV{t: types.Typ[types.UntypedBool], cval: constant.MakeBool(constant.Compare(a.cval, x.Op, b.cval))}
		case token.SHL, token.SHR:
			s, _ := constant.Uint64Val(b.cval)
			return SV{t: a.t, cval: constant.Shift(a.cval, x.Op, uint(s))}
		case token.QUO:
			if a.t.(*types.Basic).Kind() == types.UntypedInt && b.t.(*types.Basic).Kind() == types.UntypedInt {
				return SV{t: a.t, cval: constant.BinaryOp(a.cval, token.QUO_ASSIGN, b.cval)}
			}
		}
		t := a.t
		if b.t.(*types.Basic).Kind() == types.UntypedFloat {
			t = b.t
		}
		return SV{t: t, cval: constant.BinaryOp(a.cval, x.Op, b.cval)}
	}
	if x.Op == token.SHL || x.Op == token.SHR {
		a = c.materialise(a)
		b = c.materialise(b)
		if isSigned(b.t) {
			// contract shifts use unsigned counts
			b = SV{t: types.Typ[types.Uint64], term: c.toInt64(b)}
		}
	} else {
		a = c.coerce(a, b.t)
		b = c.coerce(b, a.t)
	}
	if (x.Op == token.EQL || x.Op == token.NEQ) && a.cval == nil && b.cval == nil && a.term != "nil-slice" && b.term != "nil-slice" &&
		enc.R.sortOf(a.t) == "Slice" && enc.R.sortOf(b.t) == "Slice" {
		// two slice values (not a comparison with nil): the same array, offset, length, capacity
		eq := fmt.Sprintf("(= %s %s)", a.term, b.term)
		if x.Op == token.NEQ {
			eq = not(eq)
		}
		return SV{t: types.Typ[types.Bool], term: eq}
	}
	// pointer/iface nil comparisons, typed values
	term := enc.binopTerm(nil, x.Op, a, b, a.t, b.t, token.NoPos)
	switch x.Op {
	case token.EQL, token.NEQ, token.LSS, token.LEQ, token.GTR, token.GEQ:
		return SV{t: types.Typ[types.Bool], term: term}
	}
	return SV{t: a.t, term: term}
}

func (c *evalCtx) selector(x *ast.SelectorExpr) SV {
	enc := c.f.enc
	// package-qualified constant?
	if id, ok := x.X.(*ast.Ident); ok {
		if _, bound := c.bind[id.Name]; !bound {
			for _, imp := range c.pkg.Imports() {
				if imp.Name() == id.Name {
					obj := imp.Scope().Lookup(x.Sel.Name)
					if k, ok := obj.(*types.Const); ok {
						if isUntyped(k.Type()) {
							return SV{t: k.Type(), cval: k.Val()}
						}
						return SV{t: k.Type(), term: enc.constValTerm(k.Val(), k.Type())}
					}
					if v, ok := obj.(*types.Var); ok {
						// package-level variable of an imported package: its current value,
						// under the same heap key the code's own loads use
						key := "G_" + mangle(imp.Name()+"."+x.Sel.Name)
						return SV{t: v.Type(), term: enc.heapGet(c.heap, key, enc.R.sortOf(v.Type()))}
					}
					cfail("unsupported qualified identifier %s.%s", id.Name, x.Sel.Name)
				}
			}
		}
	}
	base := c.eval(x.X)
	return c.fieldOf(base, x.Sel.Name)
}

func (c *evalCtx) fieldOf(base SV, name string) SV {
	enc := c.f.enc
	t := base.t
	if pt, ok := t.Underlying().(*types.Pointer); ok {
		st, ok := pt.Elem().Underlying().(*types.Struct)
		if !ok {
			cfail("field %s of pointer to non-struct %s", name, t)
		}
		for i := 0; i < st.NumFields(); i++ {
			if st.Field(i).Name() == name {
				key, sort := enc.fieldHeapKey(pt.Elem(), i)
				res := SV{t: st.Field(i).Type(), term: fmt.Sprintf("(select %s %s)", enc.heapGet(c.heap, key, sort), base.term)}
				c.typeFact(res)
				return res
			}
		}
		// embedded fields (one level)
		for i := 0; i < st.NumFields(); i++ {
			if st.Field(i).Embedded() {
				key, sort := enc.fieldHeapKey(pt.Elem(), i)
				inner := SV{t: st.Field(i).Type(), term: fmt.Sprintf("(select %s %s)", enc.heapGet(c.heap, key, sort), base.term)}
				if hasField(st.Field(i).Type(), name) {
					return c.fieldOf(inner, name)
				}
			}
		}
		cfail("no field %s in %s", name, t)
	}
	if st, ok := t.Underlying().(*types.Struct); ok {
		si := enc.R.structOf(t)
		for i := 0; i < st.NumFields(); i++ {
			if st.Field(i).Name() == name {
				res := SV{t: st.Field(i).Type(), term: fmt.Sprintf("(%s %s)", si.fields[i], base.term)}
				c.typeFact(res)
				return res
			}
		}
		for i := 0; i < st.NumFields(); i++ {
			if st.Field(i).Embedded() && hasField(st.Field(i).Type(), name) {
				return c.fieldOf(SV{t: st.Field(i).Type(), term: fmt.Sprintf("(%s %s)", si.fields[i], base.term)}, name)
			}
		}
		cfail("no field %s in %s", name, t)
	}
	cfail("field %s of non-struct %s", name, t)
	return SV{}
}

func hasField(t types.Type, name string) bool {
	if p, ok := t.Underlying().(*types.Pointer); ok {
		t = p.Elem()
	}
	st, ok := t.Underlying().(*types.Struct)
	if !ok {
		return false
	}
	for i := 0; i < st.NumFields(); i++ {
		if st.Field(i).Name() == name {
			return true
		}
	}
	return false
}

func (c *evalCtx) call(x *ast.CallExpr) SV {
	enc := c.f.enc
	fnName := ""
	if id, ok := x.Fun.(*ast.Ident); ok {
		fnName = id.Name
	}
	argn := func(n int) {
		if len(x.Args) != n {
			cfail("%s expects %d arguments", fnName, n)
		}
	}
	f64 := func(e ast.Expr) SV { return c.coerce(c.eval(e), types.Typ[types.Float64]) }
	boolT := types.Typ[types.Bool]
	switch fnName {
	case "old":
		argn(1)
		c2 := *c
		if c.oldHeap != nil {
			c2.heap = c.oldHeap
		}
		if c.oldBind != nil {
			nb := map[string]SV{}
			for k, v := range c.oldBind {
				nb[k] = v
			}
			for k, v := range c.bind {
				if strings.HasPrefix(v.term, "q!") {
					nb[k] = v // quantified variables stay in scope inside old()
				}
			}
			c2.bind = nb
		}
		return c2.eval(x.Args[0])
	case "athead":
		// athead(k, e): e evaluated in the state at the head of the enclosing loop k (the
		// beginning of its current iteration)
		argn(2)
		kv := c.eval(x.Args[0])
		if kv.cval == nil {
			cfail("athead needs a constant loop ordinal")
		}
		k64, _ := constant.Int64Val(kv.cval)
		top := c.f
		if top.headHeaps == nil || top.headHeaps[int(k64)] == nil {
			cfail("athead(%d, ...): no enclosing loop head state", k64)
		}
		c2 := *c
		c2.heap = top.headHeaps[int(k64)]
		return c2.eval(x.Args[1])
	case "len":
		argn(1)
		v := c.materialise(c.eval(x.Args[0]))
		switch enc.R.sortOf(v.t) {
		case "Str":
			return SV{t: types.Typ[types.Int], term: fmt.Sprintf("(slen %s)", v.term)}
		case "Slice":
			return SV{t: types.Typ[types.Int], term: fmt.Sprintf("(sl-len %s)", v.term)}
		}
		if _, ok := v.t.Underlying().(*types.Map); ok {
			enc.R.extra("(declare-fun maplen (Int) (_ BitVec 64))")
			return SV{t: types.Typ[types.Int], term: fmt.Sprintf("(maplen %s)", v.term)}
		}
		cfail("len of %s", v.t)
	case "cap":
		argn(1)
		v := c.eval(x.Args[0])
		return SV{t: types.Typ[types.Int], term: fmt.Sprintf("(sl-cap %s)", v.term)}
	case "is":
		argn(2)
		v := c.eval(x.Args[0])
		t := c.typeOfExpr(x.Args[1])
		ctor := enc.R.ifaceCtor(t)
		return SV{t: boolT, term: fmt.Sprintf("((_ is %s) %s)", ctor, v.term)}
	case "samearray":
		// two slices share their backing array
		argn(2)
		a, b := c.eval(x.Args[0]), c.eval(x.Args[1])
		return SV{t: boolT, term: fmt.Sprintf("(and (= (sl-ref %s) (sl-ref %s)) (not (= (sl-ref %s) 0)))", a.term, b.term, a.term)}
	case "typednil":
		// an interface value that holds a nil pointer (x != nil in Go, yet unusable)
		argn(1)
		v := c.eval(x.Args[0])
		var ds []string
		for _, m := range enc.R.ifaceOrder {
			if _, ok := enc.R.ifaceTypes[m].Underlying().(*types.Pointer); ok {
				ds = append(ds, fmt.Sprintf("(and ((_ is I_%s) %s) (= (v_%s %s) 0))", m, v.term, m, v.term))
			}
		}
		return SV{t: boolT, term: or(ds...)}
	case "isnil":
		argn(1)
		v := c.eval(x.Args[0])
		return SV{t: boolT, term: fmt.Sprintf("(= %s %s)", v.term, enc.zeroValue(v.t))}
	case "rvint", "rvuint", "rvfloat", "rvkind", "rvbool", "typekind":
		// abstract view of reflect.Value / reflect.Type (assumed library contracts, lib.go)
		argn(1)
		v := c.eval(x.Args[0])
		if fnName == "typekind" {
			enc.R.extra("(declare-fun rt-kind (Iface) (_ BitVec 64))")
			return SV{t: types.Typ[types.Uint], term: fmt.Sprintf("(rt-kind %s)", v.term)}
		}
		enc.declareReflect(enc.R.sortOf(v.t))
		switch fnName {
		case "rvint":
			return SV{t: types.Typ[types.Int64], term: fmt.Sprintf("(rv-int %s)", v.term)}
		case "rvuint":
			return SV{t: types.Typ[types.Uint64], term: fmt.Sprintf("(rv-uint %s)", v.term)}
		case "rvfloat":
			return SV{t: types.Typ[types.Float64], term: fmt.Sprintf("(rv-float %s)", v.term)}
		case "rvbool":
			return SV{t: boolT, term: fmt.Sprintf("(rv-bool %s)", v.term)}
		}
		return SV{t: types.Typ[types.Uint], term: fmt.Sprintf("(rv-kind %s)", v.term)}
	case "called":
		// called(g): the call recorded by "calls F(...) as g" has happened on the current path
		argn(1)
		id, ok := x.Args[0].(*ast.Ident)
		top := enc.top
		if ok {
			// in a callee's ensures assumed at a call site: the callee's own event, unknown here
			if b, isB := c.bind["called!"+id.Name]; isB {
				return b
			}
		}
		if !ok || top == nil || top.contract == nil {
			cfail("called() needs the ghost name of a calls clause")
		}
		for k, cs := range top.contract.Calls {
			if cs.As == id.Name {
				flag, ok := c.heap[ghostCallKey(k)]
				if !ok {
					flag = "false"
				}
				return SV{t: boolT, term: flag}
			}
		}
		cfail("called(%s): no calls clause binds that name", id.Name)
		panic("unreachable")
	case "decimalOf":
		// the number a decimal numeral produced by strconv.Itoa/FormatInt(.,10) denotes
		argn(1)
		v := c.materialise(c.coerce(c.eval(x.Args[0]), types.Typ[types.String]))
		enc.R.extra("(declare-fun decimal-of (Str) (_ BitVec 64))")
		return SV{t: types.Typ[types.Int64], term: fmt.Sprintf("(decimal-of %s)", v.term)}
	case "ncalls":
		// ncalls(g): how many calls matching "calls F(...) as g" have happened so far
		argn(1)
		id, ok := x.Args[0].(*ast.Ident)
		top := enc.top
		if !ok || top == nil || top.contract == nil || c.calleeSide {
			cfail("ncalls() needs the ghost name of a calls clause of this function")
		}
		for k, cs := range top.contract.Calls {
			if cs.As == id.Name {
				cnt, ok := c.heap[ghostCntKey(k)]
				if !ok {
					cnt = bvLit(0, 64)
				}
				// a 64-bit count (wrap-around after 2^63 calls is not a concern of any proof here)
				return SV{t: types.Typ[types.Int64], term: cnt}
			}
		}
		cfail("ncalls(%s): no calls clause binds that name", id.Name)
		panic("unreachable")
	case "fresh":
		// allocated by this function (pre-existing references are >= 0): pointers, maps, slices
		argn(1)
		v := c.eval(x.Args[0])
		if c.calleeSide {
			// "allocated by the callee" has no counterpart in the caller's numbering (what a
			// callee returns is a reference like any other there): the truth value is left
			// open, which only weakens what the call site may assume
			switch v.t.Underlying().(type) {
			case *types.Pointer, *types.Map, *types.Slice:
				return SV{t: boolT, term: enc.declare(enc.fresh("callee!fresh"), "Bool")}
			}
		}
		switch v.t.Underlying().(type) {
		case *types.Pointer, *types.Map:
			return SV{t: boolT, term: fmt.Sprintf("(< %s 0)", v.term)}
		case *types.Slice:
			return SV{t: boolT, term: fmt.Sprintf("(< (sl-ref %s) 0)", v.term)}
		}
		cfail("fresh() needs a pointer, map or slice")
		panic("unreachable")
	case "has":
		argn(2)
		m := c.eval(x.Args[0])
		mt, ok := m.t.Underlying().(*types.Map)
		if !ok {
			cfail("has() on non-map")
		}
		k := c.coerce(c.eval(x.Args[1]), mt.Key())
		_, _, pk, ps := enc.mapHeapKeys(mt)
		return SV{t: boolT, term: fmt.Sprintf("(and (not (= %s 0)) (select (select %s %s) %s))", m.term, enc.heapGet(c.heap, pk, ps), m.term, k.term)}
	case "ite":
		argn(3)
		cnd := c.materialise(c.eval(x.Args[0]))
		a, b := c.eval(x.Args[1]), c.eval(x.Args[2])
		a = c.coerce(a, b.t)
		b = c.coerce(b, a.t)
		a, b = c.materialise(a), c.materialise(b)
		return SV{t: a.t, term: ite(cnd.term, a.term, b.term)}
	case "isNaN":
		argn(1)
		return SV{t: boolT, term: fmt.Sprintf("(fp.isNaN %s)", f64(x.Args[0]).term)}
	case "isInf":
		argn(1)
		return SV{t: boolT, term: fmt.Sprintf("(fp.isInfinite %s)", f64(x.Args[0]).term)}
	case "isFinite":
		argn(1)
		v := f64(x.Args[0]).term
		return SV{t: boolT, term: fmt.Sprintf("(not (or (fp.isNaN %s) (fp.isInfinite %s)))", v, v)}
	case "signbit":
		argn(1)
		v := f64(x.Args[0]).term
		return SV{t: boolT, term: fmt.Sprintf("(= ((_ extract 63 63) %s) #b1)", enc.floatBits(v))}
	case "sameFloat": // bitwise identity up to NaN payload
		argn(2)
		a, b := f64(x.Args[0]).term, f64(x.Args[1]).term
		return SV{t: boolT, term: fmt.Sprintf("(= %s %s)", a, b)}
	case "floor", "ceil", "trunc", "roundeven", "fabs", "fneg":
		argn(1)
		v := f64(x.Args[0]).term
		op := map[string]string{"floor": "(fp.roundToIntegral RTN %s)", "ceil": "(fp.roundToIntegral RTP %s)",
			"trunc": "(fp.roundToIntegral RTZ %s)", "roundeven": "(fp.roundToIntegral RNE %s)", "fabs": "(fp.abs %s)", "fneg": "(fp.neg %s)"}[fnName]
		return SV{t: types.Typ[types.Float64], term: fmt.Sprintf(op, v)}
	case "float64bits":
		argn(1)
		return SV{t: types.Typ[types.Uint64], term: enc.floatBits(f64(x.Args[0]).term)}
	case "bool2int":
		argn(1)
		return SV{t: types.Typ[types.Int], term: ite(c.eval(x.Args[0]).term, bvLit(1, 64), bvLit(0, 64))}
	}
	// spec functions
	if sf, ok := enc.E.CS.Specs[fnName]; ok {
		return c.applySpec(sf, x.Args)
	}
	// logical Go functions under contract may be named in specifications
	if fc := enc.E.CS.Funcs[c.pkg.Name()+"."+fnName]; fc != nil && fc.Logical {
		callee := enc.E.L.Funcs[fc.Key]
		if callee == nil {
			cfail("logical function %s not found", fc.Key)
		}
		var args []SV
		for i, a := range x.Args {
			v := c.materialise(c.coerce(c.eval(a), callee.Params[i].Type()))
			args = append(args, SV{t: callee.Params[i].Type(), term: v.term})
		}
		return c.f.logicalApp(callee, fc, args)
	}
	// conversions T(x)
	if ct := c.tryType(types.ExprString(x.Fun)); ct != nil {
		argn(1)
		v := c.eval(x.Args[0])
		if v.cval != nil && isUntyped(v.t) {
			return c.coerce(v, ct)
		}
		term, _ := enc.convertTerm(v.term, v.t, ct, nil)
		return SV{t: ct, term: term}
	}
	if sel, ok := x.Fun.(*ast.SelectorExpr); ok {
		if pk, ok := sel.X.(*ast.Ident); ok && pk.Name == "strings" && (sel.Sel.Name == "Index" || sel.Sel.Name == "LastIndex") && len(x.Args) == 2 {
			// the logical function behind the assumed model of strings.Index / LastIndex
			fn := "lib!strings." + sel.Sel.Name
			enc.R.extra(fmt.Sprintf("(declare-fun %s (Str Str) (_ BitVec 64))", fn))
			a, b := c.eval(x.Args[0]), c.eval(x.Args[1])
			return SV{t: types.Typ[types.Int], term: fmt.Sprintf("(%s %s %s)", fn, a.term, b.term)}
		}
	}
	cfail("unknown function %s in contract (%s)", types.ExprString(x.Fun), c.what)
	return SV{}
}

func (c *evalCtx) applySpec(sf *SpecFunc, args []ast.Expr) SV {
	enc := c.f.enc
	if len(args) != len(sf.Params) {
		cfail("spec %s expects %d arguments", sf.Name, len(sf.Params))
	}
	if c.depth > 40 {
		cfail("spec recursion too deep at %s", sf.Name)
	}
	sc := *c
	sc.pkg = enc.E.typesPkg(sf.Pkg)
	var vals []SV
	for i, a := range args {
		pt := sc.resolveType(sf.Params[i].Type)
		v := c.coerce(c.eval(a), pt)
		v = c.materialise(v)
		vals = append(vals, SV{t: pt, term: v.term})
	}
	if sf.Raw {
		enc.useRawSpec(sf)
		rt := sc.resolveType(sf.Ret)
		var ts []string
		for _, v := range vals {
			ts = append(ts, v.term)
		}
		if len(ts) == 0 {
			return SV{t: rt, term: sf.Name}
		}
		return SV{t: rt, term: fmt.Sprintf("(%s %s)", sf.Name, strings.Join(ts, " "))}
	}
	// "fold f": an opaque spec applied to a term with a bound variable of a contract
	// quantifier is not unfolded there; the application stays a term of the uninterpreted
	// function (defined, as always, at the closed terms it is applied to).  Fewer facts for
	// the solver, never more: a proof-search device for quantified invariants over specs
	// with heavy bodies.
	if sf.Opaque && enc.folds(sf.Name) && len(vals) > 0 {
		open := false
		var ss, ts []string
		for _, v := range vals {
			if strings.Contains(v.term, "q!") {
				open = true
			}
			ss = append(ss, enc.R.sortOf(v.t))
			ts = append(ts, v.term)
		}
		if open {
			rt := sc.resolveType(sf.Ret)
			enc.R.extra(fmt.Sprintf("(declare-fun spec!%s (%s) %s)", sf.Name, strings.Join(ss, " "), enc.R.sortOf(rt)))
			return SV{t: rt, term: fmt.Sprintf("(spec!%s %s)", sf.Name, strings.Join(ts, " "))}
		}
	}
	nb := map[string]SV{}
	for i, p := range sf.Params {
		nb[p.Name] = vals[i]
	}
	sc.bind = nb
	sc.oldBind = nil
	sc.lookup = nil
	sc.depth = c.depth + 1
	sc.what = "spec " + sf.Name
	touch0 := enc.heapTouch
	var res SV
	if sf.Ret == "bool" {
		res = SV{t: types.Typ[types.Bool], term: sc.evalBoolText(sf.Body)}
	} else {
		e, err := parseExprText(sf.Body)
		if err != nil {
			cfail("spec %s: %v", sf.Name, err)
		}
		rt := sc.resolveType(sf.Ret)
		v := sc.materialise(sc.coerce(sc.eval(e), rt))
		res = SV{t: rt, term: v.term}
	}
	// Heap-independent specs over closed arguments are kept opaque: the application is an
	// uninterpreted term with its defining equation asserted for exactly these arguments.
	// (Congruence then relates equal arguments without unfolding the body.)
	if enc.heapTouch == touch0 && len(vals) > 0 && (len(res.term) > 40 || sf.Opaque) {
		closed := true
		var ts, ss []string
		for _, v := range vals {
			if strings.Contains(v.term, "q!") {
				closed = false
			}
			ts = append(ts, v.term)
			ss = append(ss, enc.R.sortOf(v.t))
		}
		if closed && !strings.Contains(res.term, "q!") {
			name := "spec!" + sf.Name
			enc.R.extra(fmt.Sprintf("(declare-fun %s (%s) %s)", name, strings.Join(ss, " "), enc.R.sortOf(res.t)))
			app := fmt.Sprintf("(%s %s)", name, strings.Join(ts, " "))
			if c.facts != nil && c.noOpaqueDefs && sf.Opaque && !enc.unfolds(sf.Name) {
				return SV{t: res.t, term: app}
			}
			if sf.Opaque && enc.folds(sf.Name) {
				// "fold f": this function's proof does not need the definition of f at all
				return SV{t: res.t, term: app}
			}
			if c.facts != nil {
				// local mode: the equation travels with the formula that uses the application
				dup := false
				eq := fmt.Sprintf("(= %s %s)", app, res.term)
				for _, f := range *c.facts {
					if f == eq {
						dup = true
					}
				}
				if !dup {
					*c.facts = append(*c.facts, eq)
				}
				return SV{t: res.t, term: app}
			}
			if enc.specApps == nil {
				enc.specApps = map[string]bool{}
			}
			if !enc.specApps[app] {
				enc.specApps[app] = true
				enc.decls = append(enc.decls, fmt.Sprintf("(assert (= %s %s))", app, res.term))
			}
			return SV{t: res.t, term: app}
		}
	}
	return res
}

// useRawSpec registers the SMT define-fun of a raw spec function (and the ones it uses).
func (e *FnEnc) useRawSpec(sf *SpecFunc) {
	if e.rawUsed == nil {
		e.rawUsed = map[string]bool{}
	}
	if e.rawUsed[sf.Name] {
		return
	}
	e.rawUsed[sf.Name] = true
	// dependencies: any other raw spec named in the body
	for name, other := range e.E.CS.Specs {
		if other.Raw && name != sf.Name && containsWord(sf.Body, name) {
			e.useRawSpec(other)
		}
	}
	c := &evalCtx{f: &frame{enc: e}, pkg: e.E.typesPkg(sf.Pkg)}
	var ps []string
	for _, p := range sf.Params {
		ps = append(ps, fmt.Sprintf("(%s %s)", p.Name, e.R.sortOf(c.resolveType(p.Type))))
	}
	e.rawOrder = append(e.rawOrder, fmt.Sprintf("(define-fun %s (%s) %s %s)", sf.Name, strings.Join(ps, " "),
		e.R.sortOf(c.resolveType(sf.Ret)), sf.Body))
}

func containsWord(s, w string) bool {
	idx := 0
	for {
		i := strings.Index(s[idx:], w)
		if i < 0 {
			return false
		}
		i += idx
		before := i == 0 || !isWordByte(s[i-1])
		after := i+len(w) >= len(s) || !isWordByte(s[i+len(w)])
		if before && after {
			return true
		}
		idx = i + len(w)
	}
}

func isWordByte(b byte) bool {
	return b == '_' || b == '!' || b == '.' || (b >= '0' && b <= '9') || (b >= 'a' && b <= 'z') || (b >= 'A' && b <= 'Z')
}

var _ = strconv.Itoa

// floatBits: the IEEE bit pattern of x as the application of an uninterpreted function
// fbits with the instance to_fp(fbits(x)) = x of its defining property asserted for this x.
// Such a pattern exists for every x (unique except for NaN, where one fixed but unknown
// pattern stands for all NaNs, matching SMT-LIB's single NaN), so nothing is restricted.
func (e *FnEnc) floatBits(x string) string {
	if e.fbits == nil {
		e.fbits = map[string]string{}
	}
	if b, ok := e.fbits[x]; ok {
		return b
	}
	e.R.extra("(declare-fun fbits (Float64) (_ BitVec 64))")
	b := fmt.Sprintf("(fbits %s)", x)
	if strings.Contains(x, "q!") {
		// x mentions a bound variable of a contract quantifier: the property is stated once
		// for all x, triggered on the applications of fbits
		if _, done := e.fbits["forall"]; !done {
			e.fbits["forall"] = ""
			e.decls = append(e.decls, "(assert (forall ((fx Float64)) (! (= ((_ to_fp 11 53) (fbits fx)) fx) :pattern ((fbits fx)))))")
		}
		return b
	}
	e.decls = append(e.decls, fmt.Sprintf("(assert (= ((_ to_fp 11 53) %s) %s))", b, x))
	e.fbits[x] = b
	return b
}

// typeFact: a value read from memory in a specification has the invariants of its Go type
// (slice and string lengths are non-negative and bounded).  Asserted once per term.
func (c *evalCtx) typeFact(v SV) {
	enc := c.f.enc
	switch v.t.Underlying().(type) {
	case *types.Slice, *types.Basic:
	default:
		return
	}
	if strings.Contains(v.term, "q!") {
		return
	}
	inv := enc.typeInv(v.term, v.t, 0)
	if inv == "true" {
		return
	}
	if enc.typeFacts == nil {
		enc.typeFacts = map[string]bool{}
	}
	if !enc.typeFacts[v.term] {
		enc.typeFacts[v.term] = true
		enc.decls = append(enc.decls, fmt.Sprintf("(assert %s)", inv))
	}
}

// evalLocal evaluates a formula and returns it together with the defining equations of
// the spec applications it contains.  Assumptions use (and facts formula), obligations
// (=> facts formula); the equations are definitional, so both are faithful.
func (c *evalCtx) evalLocal(text string) (string, []string) {
	var facts []string
	c2 := *c
	c2.facts = &facts
	t := c2.evalBoolText(text)
	return t, facts
}

func (c *evalCtx) evalAssume(text string) string {
	c2 := *c
	c2.noOpaqueDefs = true
	t, facts := c2.evalLocal(text)
	return and(append(facts, t)...)
}

func (c *evalCtx) evalOblige(text string) string {
	t, facts := c.evalLocal(text)
	return implies(and(facts...), t)
}

// tryType resolves a type expression or returns nil.
func (c *evalCtx) tryType(s string) (t types.Type) {
	defer func() {
		if r := recover(); r != nil {
			t = nil
		}
	}()
	if i := strings.Index(s, "."); i > 0 {
		return c.resolveType(s)
	}
	tv, err := types.Eval(token.NewFileSet(), c.pkg, token.NoPos, s)
	if err == nil && tv.IsType() {
		return tv.Type
	}
	return nil
}

func (e *FnEnc) folds(spec string) bool {
	if e.C == nil {
		return false
	}
	for _, u := range e.C.Fold {
		if u == spec {
			return true
		}
	}
	return false
}

func (e *FnEnc) unfolds(spec string) bool {
	if e.C == nil {
		return false
	}
	for _, u := range e.C.Unfold {
		if u == spec {
			return true
		}
	}
	return false
}
