package main

import (
	"encoding/json"
	"fmt"
	"go/types"
	"os"
	"path/filepath"
	"regexp"
	"strconv"
	"strings"
	"time"
)

// encodeHeader declares the parameters of fn exactly as encodeFunc does, without the body.
func (E *Engine) encodeHeader(key string) (*FnEnc, *frame, error) {
	fn := E.L.Funcs[key]
	if fn == nil {
		return nil, nil, fmt.Errorf("function %s not found", key)
	}
	fc := E.CS.Funcs[key]
	if fc == nil {
		fc = &FuncContract{Key: key, Pkg: fn.Pkg.Pkg.Name(), Invariants: map[int][]*Clause{}, Decreases: map[int]*Clause{}}
	}
	enc := &FnEnc{E: E, Fn: fn, Key: key, C: fc, R: newTypeReg(), usedContracts: map[string]bool{}}
	f := enc.newFrame(fn, "")
	f.isTop = true
	f.contract = fc
	enc.top = f
	f.curHeap = Heap{}
	f.curPC = "true"
	f.entryHeap = Heap{}
	for _, p := range fn.Params {
		n := enc.declare("in!"+p.Name(), enc.R.sortOf(p.Type()))
		enc.inputs = append(enc.inputs, n)
		enc.inputTypes = append(enc.inputTypes, p.Type())
		f.vals[p] = SV{t: p.Type(), term: n}
	}
	return enc, f, nil
}

func isJSExceptionType(t string) bool {
	switch t {
	case "*otto.exception", "otto.Value", "*otto.Error", "otto.ottoError", "otto.Error":
		return true
	}
	return false
}

// replay runs the real function on the solver's counterexample and judges the
// obligation on the observed behaviour.
func (cr *checkRun) replay(o *Obl, r SolveResult) replayResult {
	enc := o.enc
	rf := &ReplayFile{}
	fail := func(note string) replayResult {
		rf.Note = note
		p := cr.writeReplay(o, r, rf, note)
		return replayResult{Reproduced: false, File: p, Note: note}
	}
	if enc == nil || enc.Fn == nil {
		return fail("closed formula (lemma/sanity): no inputs to replay")
	}
	if o.Func != enc.Key {
		return fail("obligation inside an inlined callee")
	}
	fn := enc.Fn
	if r.Model == nil {
		return fail("solver returned no model")
	}
	if fn.Parent() != nil {
		return fail("the function is a closure: it cannot be called on its own with the solver's inputs")
	}
	pkgName := fn.Pkg.Pkg.Name()
	bl := &builder{e: enc, m: r.Model, pkg: pkgName, imports: map[string]bool{}}
	var lits []string
	for i, in := range enc.inputs {
		l, err := bl.build(in, enc.inputTypes[i], 0)
		if err != nil {
			return fail(fmt.Sprintf("input %s: %v", in, err))
		}
		lits = append(lits, l)
	}
	rf.GoInputs = lits
	// call expression
	var b strings.Builder
	args := []string{}
	for _, st := range bl.pre {
		fmt.Fprintf(&b, "\t\t%s\n", st)
	}
	for i, l := range lits {
		fmt.Fprintf(&b, "\t\tin%d := %s\n", i, l)
		args = append(args, fmt.Sprintf("in%d", i))
	}
	call := ""
	if fn.Signature.Recv() != nil {
		call = fmt.Sprintf("in0.%s(%s)", fn.Name(), strings.Join(args[1:], ", "))
	} else {
		call = fmt.Sprintf("%s(%s)", fn.Name(), strings.Join(args, ", "))
	}
	if fn.Signature.Variadic() {
		call = strings.TrimSuffix(call, ")") + "...)"
	}
	nres := fn.Signature.Results().Len()
	switch nres {
	case 0:
		fmt.Fprintf(&b, "\t\t%s\n\t\treturn nil\n", call)
	default:
		var rs []string
		for i := 0; i < nres; i++ {
			rs = append(rs, fmt.Sprintf("r%d", i))
		}
		fmt.Fprintf(&b, "\t\t%s := %s\n\t\treturn []interface{}{%s}\n", strings.Join(rs, ", "), call, strings.Join(rs, ", "))
	}
	body := b.String()
	for imp := range bl.imports {
		body = "//import " + imp + "\n" + body
	}
	rf.GoSource = body
	out, _, err := runInPackage(pkgName, body, 60*time.Second)
	rf.Observed = out
	if err != nil && out == "" {
		if strings.Contains(err.Error(), "timed out") && strings.HasPrefix(o.Kind, "dec.") {
			rf.Reproduced = true
			p := cr.writeReplay(o, r, rf, "real code did not terminate within 60 s on the counterexample")
			return replayResult{Reproduced: true, File: p}
		}
		return fail(err.Error())
	}
	var oc outcome
	if json.Unmarshal([]byte(out), &oc) != nil {
		return fail("cannot parse replay output")
	}
	switch {
	case strings.HasPrefix(o.Kind, "safety") || o.Kind == "foreign" || o.Kind == "nothrow":
		bad := oc.Panic != "" && (oc.RuntimeError || !isJSExceptionType(oc.PanicType))
		if o.Kind == "nothrow" {
			bad = oc.Panic != ""
		}
		if bad {
			rf.Reproduced = true
			p := cr.writeReplay(o, r, rf, fmt.Sprintf("real code panics with %s: %s", oc.PanicType, oc.Panic))
			return replayResult{Reproduced: true, File: p}
		}
		return fail("real code does not panic on the solver's input (spurious model: an abstracted callee or library value)")
	case strings.HasPrefix(o.Kind, "throw."):
		if oc.Panic == "" || !isJSExceptionType(oc.PanicType) {
			return fail("real code does not throw on the solver's input (spurious model: an abstracted callee or library value)")
		}
		ok, err := cr.evalPostOnObserved(o, r, oc)
		if err != nil {
			return fail("cannot evaluate throws clause on the inputs: " + err.Error())
		}
		if !ok {
			rf.Reproduced = true
			p := cr.writeReplay(o, r, rf, fmt.Sprintf("real code throws (%s) although the throws clause is false for these inputs", oc.Panic))
			return replayResult{Reproduced: true, File: p}
		}
		return fail("throws clause holds for these inputs")
	case strings.HasPrefix(o.Kind, "post."):
		if oc.Panic != "" {
			return fail("real code panics on this input; postcondition not applicable")
		}
		ok, err := cr.evalPostOnObserved(o, r, oc)
		if err != nil {
			return fail("cannot evaluate clause on observed outputs: " + err.Error())
		}
		if !ok {
			rf.Reproduced = true
			p := cr.writeReplay(o, r, rf, "the contract clause is false on the outputs of the real code")
			return replayResult{Reproduced: true, File: p}
		}
		return fail("clause holds on the real outputs (spurious model: an abstracted callee or library value)")
	}
	return fail("no replay judgement for obligation kind " + o.Kind)
}

// evalPostOnObserved evaluates ensures clause k of the function with the inputs fixed to
// the model and the results fixed to the observed values.  The oracle is the contract.
func (cr *checkRun) evalPostOnObserved(o *Obl, r SolveResult, oc outcome) (bool, error) {
	enc0 := o.enc
	isThrow := strings.HasPrefix(o.Kind, "throw.")
	list := enc0.C.Ensures
	if isThrow {
		list = enc0.C.Throws
	}
	k, err := strconv.Atoi(strings.TrimPrefix(strings.TrimPrefix(o.Kind, "post."), "throw."))
	if err != nil || k < 1 || k > len(list) {
		return false, fmt.Errorf("bad clause index")
	}
	cl := list[k-1]
	var ok bool
	var rerr error
	func() {
		defer func() {
			if rec := recover(); rec != nil {
				rerr = fmt.Errorf("%v", rec)
			}
		}()
		enc, f, err := cr.E.encodeHeader(enc0.Key)
		if err != nil {
			rerr = err
			return
		}
		// make the same dynamic types available
		for _, m := range enc0.R.ifaceOrder {
			enc.R.ifaceCtor(enc0.R.ifaceTypes[m])
		}
		for _, lit := range enc0.R.strOrder {
			enc.R.strConst(lit)
		}
		fn := enc.Fn
		res := fn.Signature.Results()
		if !isThrow && len(oc.Results) != res.Len() {
			rerr = fmt.Errorf("result arity")
			return
		}
		var vals []SV
		for i := 0; i < res.Len() && !isThrow; i++ {
			t, err := enc.smtOfDump(oc.Results[i], res.At(i).Type())
			if err != nil {
				rerr = err
				return
			}
			vals = append(vals, SV{t: res.At(i).Type(), term: t})
		}
		extra := map[string]SV{}
		if !isThrow {
			var rv SV
			if len(vals) == 1 {
				rv = vals[0]
			} else {
				rv = SV{tuple: vals}
			}
			bindResults(extra, fn, rv)
		}
		c := f.evalContractBool(cl, f.curHeap, extra, nil)
		var eqs []string
		for _, t := range enc0.probeTerms() {
			v := r.Model[t]
			if v == "" || strings.Contains(v, "!val!") || strings.Contains(v, "@") || strings.HasPrefix(t, "in!") && strings.Contains(v, "(") && !strings.HasPrefix(v, "(fp") && !strings.HasPrefix(v, "(_") && !strings.HasPrefix(v, "(-") {
				continue
			}
			if m := heapRefRe.FindStringSubmatch(t); m != nil {
				if _, ok := enc.R.heapDecl[m[1]]; !ok {
					continue
				}
			}
			eqs = append(eqs, fmt.Sprintf("(assert (= %s %s))", t, v))
		}
		q := &Obl{Name: o.Name + "!eval", PC: "true", Cond: c, NDecls: len(enc.decls), enc: enc}
		text := q.query(false)
		text = strings.Replace(text, "(check-sat)", strings.Join(eqs, "\n")+"\n(check-sat)", 1)
		file := filepath.Join(cr.work, fmt.Sprintf("eval-%s.smt2", mangle(o.Name)))
		os.WriteFile(file, []byte(text), 0o644)
		sr := solve(file, 20*time.Second, false)
		switch sr.Status {
		case "sat":
			ok = false // clause is false on these concrete values
		case "unsat":
			ok = true
		default:
			rerr = fmt.Errorf("ground evaluation gave %s: %s", sr.Status, firstLines(sr.Output, 2))
		}
	}()
	return ok, rerr
}

// ---------------------------------------------------------------------------
// known findings: witnesses through the public API
// ---------------------------------------------------------------------------

var heapRefRe = regexp.MustCompile(`\(select \(select ([^ ()]+) `)

var knownCache map[string]string

// replayKnown reports whether the recorded witness of a known finding still misbehaves.
func (cr *checkRun) replayKnown(k *KnownFinding) (bool, string) {
	if knownCache == nil {
		knownCache = map[string]string{}
		var ks []*KnownFinding
		all := loadKnown()
		for i := range all {
			if all[i].Status == "known" && hasProp(all[i].Properties, cr.prop) {
				ks = append(ks, &all[i])
			}
		}
		outs := runWitnesses(ks)
		for i, kf := range ks {
			if i < len(outs) {
				knownCache[kf.ID] = outs[i]
			}
		}
	}
	obs, ok := knownCache[k.ID]
	if !ok {
		return false, "witness could not be run"
	}
	if obs == k.Expect {
		return false, "observed " + obs + " = required"
	}
	return true, obs
}

// runWitnesses evaluates each finding's JS (fresh runtime each) or Go snippet.
func runWitnesses(ks []*KnownFinding) []string {
	if len(ks) == 0 {
		return nil
	}
	var b strings.Builder
	b.WriteString("//import github.com/robertkrimen/otto/parser\n//import github.com/robertkrimen/otto/ast\n")
	b.WriteString("\t\tvar _ = parser.ParseFile\n\t\tvar _ ast.Node\n")
	b.WriteString("\t\tvar outs []interface{}\n")
	for _, k := range ks {
		if k.Go != "" {
			fmt.Fprintf(&b, "\t\touts = append(outs, func() (res string) {\n\t\t\tdefer func() { if r := recover(); r != nil { res = \"GOPANIC: \" + fmt.Sprint(r) } }()\n\t\t\t%s\n\t\t}())\n", k.Go)
			continue
		}
		fmt.Fprintf(&b, "\t\touts = append(outs, func() (res string) {\n\t\t\tdefer func() { if r := recover(); r != nil { res = \"GOPANIC: \" + fmt.Sprint(r) } }()\n\t\t\tvm := New()\n\t\t\tv, err := vm.Run(%s)\n\t\t\tif err != nil { return \"ERROR: \" + err.Error() }\n\t\t\ts, _ := v.ToString()\n\t\t\treturn s\n\t\t}())\n", strconv.Quote(k.JS))
	}
	b.WriteString("\t\treturn outs\n")
	out, _, err := runInPackage("otto", b.String(), 120*time.Second)
	if err != nil && out == "" {
		fmt.Println("NOTE: witness driver failed:", err)
		return nil
	}
	var oc outcome
	if json.Unmarshal([]byte(out), &oc) != nil {
		return nil
	}
	var res []string
	for _, r := range oc.Results {
		var raw []byte
		fmt.Sscanf(r.V, "%x", &raw)
		res = append(res, string(raw))
	}
	return res
}

func cmdReplay(args []string) int {
	if len(args) != 1 {
		fmt.Fprintln(os.Stderr, "usage: gowp replay <file>")
		return 2
	}
	b, err := os.ReadFile(args[0])
	if err != nil {
		fmt.Fprintln(os.Stderr, err)
		return 2
	}
	var rf ReplayFile
	if err := json.Unmarshal(b, &rf); err != nil {
		fmt.Fprintln(os.Stderr, err)
		return 2
	}
	fmt.Printf("obligation: %s\nclause: %s\nposition: %s\nnote: %s\n", rf.Obligation, rf.Clause, rf.Pos, rf.Note)
	if rf.GoSource == "" {
		fmt.Println("no executable counterexample recorded (no-failing-input-found); solver output:")
		fmt.Println(rf.SolverOut)
		return 1
	}
	pkg := "otto"
	if i := strings.Index(rf.Function, "."); i > 0 {
		pkg = rf.Function[:i]
	}
	out, _, err := runInPackage(pkg, rf.GoSource, 60*time.Second)
	fmt.Printf("inputs: %v\nobserved now: %s\nobserved when recorded: %s\n", rf.GoInputs, out, rf.Observed)
	if err != nil {
		fmt.Println("replay error:", err)
	}
	if rf.Reproduced {
		return 1
	}
	return 0
}

var _ = types.Typ
