package main

import (
	"bytes"
	"context"
	"fmt"
	"os"
	"os/exec"
	"path/filepath"
	"regexp"
	"strings"
	"sync"
	"time"
)

type SolveResult struct {
	Status  string // unsat | sat | unknown | timeout | error
	Solver  string
	Seconds float64
	Model   map[string]string
	Output  string
	File    string
	Confirm string // second solver that agreed (thorough)
}

type solverSpec struct {
	name string
	args []string
}

var solvers = []solverSpec{
	{"z3-new", []string{"z3-new", "-smt2"}},
	{"z3", []string{"z3", "-smt2"}},
	{"cvc5", []string{"cvc5", "--lang=smt2", "--produce-models", "--fp-exp"}},
}

// query builds the SMT-LIB text of an obligation.
func (o *Obl) query(withModel bool) string {
	e := o.enc
	var b strings.Builder
	body := strings.Join(e.decls[:o.NDecls], "\n")
	// raw spec functions and smtraw lines
	spec := strings.Join(e.E.CS.rawFor(e), "\n") + "\n" + strings.Join(e.rawOrder, "\n") + "\n"
	b.WriteString(e.R.prelude(spec))
	fmt.Fprintf(&b, "; obligation %s\n; %s\n; %s\n", o.Name, o.Pos, strings.ReplaceAll(o.Text, "\n", " "))
	b.WriteString(body)
	b.WriteString("\n")
	fmt.Fprintf(&b, "(assert %s)\n(assert (not %s))\n(check-sat)\n", o.PC, o.Cond)
	if withModel && len(e.inputs) > 0 {
		// probe terms are computed before the prelude is printed? no: they may register
		// nothing new (they only use sorts already present)
		fmt.Fprintf(&b, "(get-value (%s))\n", strings.Join(e.probeTerms(), "\n "))
	}
	return b.String()
}

func (cs *ContractSet) rawFor(e *FnEnc) []string {
	var out []string
	for _, r := range cs.SMTRaw {
		out = append(out, r)
	}
	return out
}

var firstWord = regexp.MustCompile(`^(unsat|sat|unknown|timeout)`)

func runSolver(ctx context.Context, sp solverSpec, file string, timeout time.Duration) (string, string, float64) {
	args := append([]string{}, sp.args[1:]...)
	switch sp.name {
	case "z3", "z3-new":
		args = append(args, fmt.Sprintf("-T:%d", int(timeout.Seconds())+1))
	case "cvc5":
		args = append(args, fmt.Sprintf("--tlimit=%d", int(timeout.Milliseconds())))
	}
	args = append(args, file)
	cctx, cancel := context.WithTimeout(ctx, timeout+2*time.Second)
	defer cancel()
	cmd := exec.CommandContext(cctx, sp.args[0], args...)
	var out bytes.Buffer
	cmd.Stdout = &out
	cmd.Stderr = &out
	start := time.Now()
	cmd.Run()
	el := time.Since(start).Seconds()
	s := out.String()
	lines := strings.SplitN(strings.TrimSpace(s), "\n", 2)
	status := "error"
	if m := firstWord.FindString(strings.TrimSpace(lines[0])); m != "" {
		status = m
	} else if cctx.Err() != nil {
		status = "timeout"
	}
	return status, s, el
}

// solve races the installed solvers on one query file; first definite answer wins.
func solve(file string, timeout time.Duration, cross bool) SolveResult {
	ctx, cancel := context.WithCancel(context.Background())
	defer cancel()
	type ans struct {
		status, out, solver string
		secs                float64
	}
	ch := make(chan ans, len(solvers))
	for _, sp := range solvers {
		go func(sp solverSpec) {
			st, out, secs := runSolver(ctx, sp, file, timeout)
			ch <- ans{st, out, sp.name, secs}
		}(sp)
	}
	var first *ans
	var all []ans
	for i := 0; i < len(solvers); i++ {
		a := <-ch
		all = append(all, a)
		if a.status == "unsat" || a.status == "sat" {
			if first == nil {
				aa := a
				first = &aa
				if !cross {
					break
				}
			} else if cross {
				if a.status != first.status {
					return SolveResult{Status: "error", Solver: first.solver + "/" + a.solver, Output: "solver disagreement: " + first.status + " vs " + a.status, File: file}
				}
				r := SolveResult{Status: first.status, Solver: first.solver, Seconds: first.secs, Output: first.out, File: file, Confirm: a.solver}
				r.Model = parseModel(first.out)
				return r
			}
		}
	}
	if first != nil {
		r := SolveResult{Status: first.status, Solver: first.solver, Seconds: first.secs, Output: first.out, File: file}
		r.Model = parseModel(first.out)
		return r
	}
	// no definite answer
	st := "unknown"
	var outs []string
	worst := 0.0
	for _, a := range all {
		if a.status == "timeout" {
			st = "timeout"
		}
		if a.secs > worst {
			worst = a.secs
		}
		o := a.out
		if len(o) > 300 {
			o = o[:300]
		}
		outs = append(outs, a.solver+": "+a.status+" "+strings.TrimSpace(o))
	}
	return SolveResult{Status: st, Solver: "none", Seconds: worst, Output: strings.Join(outs, "\n"), File: file}
}

// parseModelValues reads a (get-value ...) answer ((term value) (term value) ...) and
// returns the values in order (solvers answer in the order asked).
func parseModelValues(out string) []string {
	idx := strings.Index(out, "((")
	if idx < 0 {
		return nil
	}
	s := out[idx:]
	var vals []string
	pos := 1
	for pos < len(s) {
		for pos < len(s) && (s[pos] == ' ' || s[pos] == '\n' || s[pos] == '\t' || s[pos] == '\r') {
			pos++
		}
		if pos >= len(s) || s[pos] != '(' {
			break
		}
		end := matchParenAt(s, pos)
		if end < 0 {
			break
		}
		parts := splitSexp(s[pos+1 : end])
		if len(parts) == 2 {
			vals = append(vals, strings.Join(strings.Fields(parts[1]), " "))
		} else {
			vals = append(vals, "")
		}
		pos = end + 1
	}
	return vals
}

func parseModel(out string) map[string]string {
	m := map[string]string{}
	for i, v := range parseModelValues(out) {
		m[fmt.Sprintf("#%d", i)] = v
	}
	return m
}

// modelFor zips the probe terms of the obligation with the solver's answers.
func (o *Obl) modelFor(out string) map[string]string {
	if o.enc == nil || len(o.enc.inputs) == 0 {
		return nil
	}
	terms := o.enc.probeTerms()
	vals := parseModelValues(out)
	if len(vals) != len(terms) {
		return nil
	}
	m := map[string]string{}
	for i, t := range terms {
		m[t] = vals[i]
	}
	return m
}

func matchParenAt(s string, i int) int {
	depth := 0
	for ; i < len(s); i++ {
		switch s[i] {
		case '(':
			depth++
		case ')':
			depth--
			if depth == 0 {
				return i
			}
		case '"':
			for i++; i < len(s) && s[i] != '"'; i++ {
			}
		case '|':
			for i++; i < len(s) && s[i] != '|'; i++ {
			}
		}
	}
	return -1
}

var encMu sync.Mutex

// dischargeAll solves obligations in parallel.
func dischargeAll(obls0 []*Obl, dir string, timeout time.Duration, cross bool, par int) map[*Obl]SolveResult {
	// obligations with parts are solved part by part and recombined
	var obls []*Obl
	partOf := map[*Obl]*Obl{}
	for _, o := range obls0 {
		if len(o.Parts) == 0 || o.Trivial {
			obls = append(obls, o)
			continue
		}
		for _, p := range o.Parts {
			if p.Cond == "true" {
				continue
			}
			c := *o
			c.Parts = nil
			c.PC, c.Cond = p.PC, p.Cond
			obls = append(obls, &c)
			partOf[&c] = o
		}
	}
	res0 := dischargeParts(obls, dir, timeout, cross, par)
	res := map[*Obl]SolveResult{}
	for _, o := range obls0 {
		if len(o.Parts) > 0 && !o.Trivial {
			res[o] = SolveResult{Status: "unsat", Solver: "parts"}
		}
	}
	for _, o := range obls {
		r := res0[o]
		parent, isPart := partOf[o]
		if !isPart {
			res[o] = r
			continue
		}
		cur := res[parent]
		cur.Seconds += r.Seconds
		switch {
		case cur.Status == "sat":
		case r.Status == "sat":
			sec := cur.Seconds
			cur = r
			cur.Seconds = sec
		case r.Status == "unsat":
			if cur.Solver == "parts" {
				cur.Solver = r.Solver
			}
		default:
			if cur.Status == "unsat" {
				cur.Status, cur.Output, cur.File = r.Status, r.Output, r.File
			}
		}
		res[parent] = cur
	}
	return res
}

func dischargeParts(obls []*Obl, dir string, timeout time.Duration, cross bool, par int) map[*Obl]SolveResult {
	res := map[*Obl]SolveResult{}
	var mu sync.Mutex
	sem := make(chan struct{}, par)
	var wg sync.WaitGroup
	// query texts are built sequentially: building mutates the shared type registry
	texts := make([]string, len(obls))
	smalls := make([]string, len(obls))
	for i, o := range obls {
		if o.Trivial {
			continue
		}
		texts[i] = o.query(true)
		smalls[i] = o.smallModelConstraints()
		// probing may have registered new literals: rebuild once so the prelude has them
		texts[i] = o.query(true)
	}
	for i, o := range obls {
		if o.Trivial {
			res[o] = SolveResult{Status: "unsat", Solver: "syntactic"}
			continue
		}
		wg.Add(1)
		go func(i int, o *Obl) {
			defer wg.Done()
			sem <- struct{}{}
			defer func() { <-sem }()
			file := filepath.Join(dir, fmt.Sprintf("o%04d.smt2", i))
			os.WriteFile(file, []byte(texts[i]), 0o644)
			r := solve(file, timeout, cross)
			if r.Status == "sat" {
				encMu.Lock()
				r.Model = o.modelFor(r.Output)
				encMu.Unlock()
				// prefer a small counterexample for replay: same query plus size bounds
				if small := smalls[i]; small != "" {
					f2 := strings.TrimSuffix(file, ".smt2") + "-small.smt2"
					q := strings.Replace(texts[i], "(check-sat)", small+"(check-sat)", 1)
					os.WriteFile(f2, []byte(q), 0o644)
					r2 := solve(f2, timeout, false)
					if r2.Status == "sat" {
						encMu.Lock()
						m := o.modelFor(r2.Output)
						encMu.Unlock()
						if m != nil {
							r.Model = m
							r.Output = r2.Output
						}
					}
				}
			}
			mu.Lock()
			res[o] = r
			mu.Unlock()
		}(i, o)
	}
	wg.Wait()
	return res
}

// smallModelConstraints bounds the lengths of input slices and strings (only used to
// obtain a replayable counterexample after the unrestricted query was already sat).
func (o *Obl) smallModelConstraints() string {
	if o.enc == nil {
		return ""
	}
	var b strings.Builder
	for _, t := range o.enc.probeTerms() {
		switch {
		case strings.HasPrefix(t, "(sl-len "):
			fmt.Fprintf(&b, "(assert (bvule %s %s))\n", t, bvLit(probeSliceElems, 64))
		case strings.HasPrefix(t, "(slen "):
			fmt.Fprintf(&b, "(assert (bvule %s %s))\n", t, bvLit(probeStrBytes, 64))
		}
	}
	return b.String()
}
