package main

import (
	"bytes"
	"context"
	"encoding/json"
	"fmt"
	"go/types"
	"math/big"
	"os"
	"os/exec"
	"path/filepath"
	"regexp"
	"strings"
	"time"
)

func contextBackground() context.Context { return context.Background() }

type replayResult struct {
	Reproduced bool
	File       string
	Note       string
}

type ReplayFile struct {
	Property   string            `json:"property"`
	Obligation string            `json:"obligation"`
	Kind       string            `json:"kind"`
	Function   string            `json:"function"`
	Pos        string            `json:"pos"`
	Clause     string            `json:"clause"`
	Solver     string            `json:"solver"`
	SolverOut  string            `json:"solver_output"`
	Model      map[string]string `json:"model,omitempty"`
	GoInputs   []string          `json:"go_inputs,omitempty"`
	Observed   string            `json:"observed,omitempty"`
	Reproduced bool              `json:"reproduced"`
	Note       string            `json:"note"`
	Rerun      string            `json:"rerun"`
	GoSource   string            `json:"go_source,omitempty"`
}

func replayDir() string {
	d := filepath.Join(verifDir, "work", "replay")
	os.MkdirAll(d, 0o755)
	return d
}

func (cr *checkRun) writeReplay(o *Obl, r SolveResult, extra *ReplayFile, note string) string {
	rf := ReplayFile{}
	if extra != nil {
		rf = *extra
	}
	rf.Property = cr.prop
	rf.Obligation = o.Name
	rf.Kind = o.Kind
	rf.Function = o.Func
	rf.Pos = o.Pos
	rf.Clause = o.Text
	rf.Solver = r.Solver
	out := r.Output
	if len(out) > 4000 {
		out = out[:4000]
	}
	rf.SolverOut = out
	rf.Model = r.Model
	if rf.Note == "" {
		rf.Note = note
	}
	name := fmt.Sprintf("%s-%s.json", cr.prop, mangle(o.Name))
	if len(name) > 180 {
		name = name[:180] + ".json"
	}
	path := filepath.Join(replayDir(), name)
	rf.Rerun = "/verif/bin/gowp replay " + path
	b, _ := json.MarshalIndent(rf, "", " ")
	os.WriteFile(path, append(b, '\n'), 0o644)
	return path
}

// ---------------------------------------------------------------------------
// model value -> Go literal
// ---------------------------------------------------------------------------

var bvHex = regexp.MustCompile(`^#x([0-9a-fA-F]+)$`)
var bvBin = regexp.MustCompile(`^#b([01]+)$`)

func parseBV(s string) (*big.Int, int, bool) {
	s = strings.TrimSpace(s)
	if m := bvHex.FindStringSubmatch(s); m != nil {
		x, _ := new(big.Int).SetString(m[1], 16)
		return x, 4 * len(m[1]), true
	}
	if m := bvBin.FindStringSubmatch(s); m != nil {
		x, _ := new(big.Int).SetString(m[1], 2)
		return x, len(m[1]), true
	}
	var bits int
	var val string
	if n, _ := fmt.Sscanf(s, "(_ bv%s %d)", &val, &bits); n == 2 {
		x, ok := new(big.Int).SetString(val, 10)
		return x, bits, ok
	}
	return nil, 0, false
}

// parseFP returns the bit pattern of an SMT floating point value.
func parseFP(s string, eb, sb int) (uint64, bool) {
	s = strings.TrimSpace(s)
	total := eb + sb
	switch {
	case strings.HasPrefix(s, "(_ +zero"):
		return 0, true
	case strings.HasPrefix(s, "(_ -zero"):
		return 1 << uint(total-1), true
	case strings.HasPrefix(s, "(_ +oo"):
		return ((1 << uint(eb)) - 1) << uint(sb-1), true
	case strings.HasPrefix(s, "(_ -oo"):
		return (((1 << uint(eb)) - 1) << uint(sb-1)) | 1<<uint(total-1), true
	case strings.HasPrefix(s, "(_ NaN"):
		return (((1 << uint(eb)) - 1) << uint(sb-1)) | 1<<uint(sb-2), true
	case strings.HasPrefix(s, "(fp "):
		parts := splitSexp(s[4 : len(s)-1])
		if len(parts) != 3 {
			return 0, false
		}
		sg, _, ok1 := parseBV(parts[0])
		ex, _, ok2 := parseBV(parts[1])
		mn, _, ok3 := parseBV(parts[2])
		if !(ok1 && ok2 && ok3) {
			return 0, false
		}
		return sg.Uint64()<<uint(total-1) | ex.Uint64()<<uint(sb-1) | mn.Uint64(), true
	case strings.HasPrefix(s, "((_ to_fp"):
		i := strings.LastIndex(s, " ")
		x, _, ok := parseBV(strings.TrimSuffix(s[i+1:], ")"))
		if ok {
			return x.Uint64(), true
		}
	}
	return 0, false
}

func splitSexp(s string) []string {
	var out []string
	s = strings.TrimSpace(s)
	for len(s) > 0 {
		if s[0] == '(' {
			e := matchParenAt(s, 0)
			if e < 0 {
				return nil
			}
			out = append(out, s[:e+1])
			s = strings.TrimSpace(s[e+1:])
		} else {
			i := strings.IndexAny(s, " \n\t")
			if i < 0 {
				out = append(out, s)
				break
			}
			out = append(out, s[:i])
			s = strings.TrimSpace(s[i:])
		}
	}
	return out
}

type litCtx struct {
	pkg        string
	strVals    map[string]string // Str model value -> Go string literal
	ifaceTypes map[string]types.Type
}

// goLiteral renders the SMT model value v of Go type t as Go source (inside package otto etc).
func (lc *litCtx) goLiteral(v string, t types.Type) (string, error) {
	v = strings.TrimSpace(v)
	tn := types.TypeString(t, func(p *types.Package) string {
		if p.Name() == lc.pkg {
			return ""
		}
		return p.Name()
	})
	switch u := t.Underlying().(type) {
	case *types.Basic:
		switch {
		case u.Kind() == types.Bool:
			return tn + "(" + v + ")", nil
		case u.Info()&types.IsInteger != 0:
			x, bits, ok := parseBV(v)
			if !ok {
				return "", fmt.Errorf("bad bv %q", v)
			}
			if u.Info()&types.IsUnsigned == 0 && x.Bit(bits-1) == 1 {
				x = new(big.Int).Sub(x, new(big.Int).Lsh(big.NewInt(1), uint(bits)))
			}
			return fmt.Sprintf("%s(%s)", tn, x.String()), nil
		case u.Kind() == types.Float64:
			b, ok := parseFP(v, 11, 53)
			if !ok {
				return "", fmt.Errorf("bad fp %q", v)
			}
			return fmt.Sprintf("%s(math.Float64frombits(0x%016x))", tn, b), nil
		case u.Kind() == types.Float32:
			b, ok := parseFP(v, 8, 24)
			if !ok {
				return "", fmt.Errorf("bad fp %q", v)
			}
			return fmt.Sprintf("%s(math.Float32frombits(0x%08x))", tn, b), nil
		case u.Kind() == types.String:
			if s, ok := lc.strVals[v]; ok {
				return tn + "(" + s + ")", nil
			}
			return "", fmt.Errorf("string value %q without bytes", v)
		}
	case *types.Struct:
		if !strings.HasPrefix(v, "(mk-") {
			if strings.HasPrefix(v, "mk-") {
				return tn + "{}", nil
			}
			return "", fmt.Errorf("bad struct value %q", v)
		}
		parts := splitSexp(v[1 : len(v)-1])
		if len(parts) != u.NumFields()+1 {
			return "", fmt.Errorf("struct arity mismatch %q", v)
		}
		var fs []string
		for i := 0; i < u.NumFields(); i++ {
			l, err := lc.goLiteral(parts[i+1], u.Field(i).Type())
			if err != nil {
				return "", err
			}
			fs = append(fs, u.Field(i).Name()+": "+l)
		}
		return tn + "{" + strings.Join(fs, ", ") + "}", nil
	case *types.Interface:
		if v == "I_nil" {
			return "nil", nil
		}
		if strings.HasPrefix(v, "(I_other") {
			return "", fmt.Errorf("dynamic type outside the modelled set")
		}
		if !strings.HasPrefix(v, "(I_") {
			return "", fmt.Errorf("bad iface %q", v)
		}
		parts := splitSexp(v[1 : len(v)-1])
		ctor := strings.TrimPrefix(parts[0], "I_")
		dt, ok := lc.ifaceTypes[ctor]
		if !ok {
			return "", fmt.Errorf("unknown ctor %s", ctor)
		}
		l, err := lc.goLiteral(parts[1], dt)
		if err != nil {
			return "", err
		}
		return "interface{}(" + l + ")", nil
	case *types.Pointer, *types.Map, *types.Signature, *types.Chan:
		if v == "0" {
			return "(" + tn + ")(nil)", nil
		}
		return "", fmt.Errorf("reference value of type %s needs a replay adapter", tn)
	case *types.Slice:
		if strings.HasPrefix(v, "(mk-slice 0 ") {
			return tn + "(nil)", nil
		}
		return "", fmt.Errorf("slice value needs a replay adapter")
	}
	return "", fmt.Errorf("no literal for type %s", tn)
}

// ---------------------------------------------------------------------------
// running real code
// ---------------------------------------------------------------------------

const replaySupport = `
type verifDumpNode struct {
	K string          ` + "`json:\"k\"`" + `
	T string          ` + "`json:\"t,omitempty\"`" + `
	V string          ` + "`json:\"v,omitempty\"`" + `
	F []verifDumpNode ` + "`json:\"f,omitempty\"`" + `
}

func verifDump(v reflect.Value, depth int) verifDumpNode {
	if !v.IsValid() {
		return verifDumpNode{K: "nil"}
	}
	switch v.Kind() {
	case reflect.Bool:
		return verifDumpNode{K: "bool", V: fmt.Sprint(v.Bool())}
	case reflect.Int, reflect.Int8, reflect.Int16, reflect.Int32, reflect.Int64:
		return verifDumpNode{K: "int", T: v.Type().String(), V: fmt.Sprint(v.Int())}
	case reflect.Uint, reflect.Uint8, reflect.Uint16, reflect.Uint32, reflect.Uint64, reflect.Uintptr:
		return verifDumpNode{K: "uint", T: v.Type().String(), V: fmt.Sprint(v.Uint())}
	case reflect.Float64:
		return verifDumpNode{K: "f64", V: fmt.Sprintf("%016x", math.Float64bits(v.Float()))}
	case reflect.Float32:
		return verifDumpNode{K: "f32", V: fmt.Sprintf("%08x", math.Float32bits(float32(v.Float())))}
	case reflect.String:
		return verifDumpNode{K: "string", V: fmt.Sprintf("%x", v.String())}
	case reflect.Struct:
		n := verifDumpNode{K: "struct", T: v.Type().String()}
		if depth > 4 {
			return n
		}
		for i := 0; i < v.NumField(); i++ {
			n.F = append(n.F, verifDump(v.Field(i), depth+1))
		}
		return n
	case reflect.Interface:
		if v.IsNil() {
			return verifDumpNode{K: "iface-nil"}
		}
		return verifDumpNode{K: "iface", T: v.Elem().Type().String(), F: []verifDumpNode{verifDump(v.Elem(), depth+1)}}
	case reflect.Ptr, reflect.Map, reflect.Func, reflect.Chan:
		if v.IsNil() {
			return verifDumpNode{K: "ref-nil", T: v.Type().String()}
		}
		return verifDumpNode{K: "ref", T: v.Type().String()}
	case reflect.Slice:
		return verifDumpNode{K: "slice", T: v.Type().String(), V: fmt.Sprint(v.Len())}
	}
	return verifDumpNode{K: "other", T: v.Type().String()}
}

type verifOutcome struct {
	Panic     string          ` + "`json:\"panic,omitempty\"`" + `
	PanicType string          ` + "`json:\"panic_type,omitempty\"`" + `
	RuntimeError bool         ` + "`json:\"runtime_error,omitempty\"`" + `
	Results   []verifDumpNode ` + "`json:\"results,omitempty\"`" + `
}

func verifRun(f func() []interface{}) (out verifOutcome) {
	defer func() {
		if r := recover(); r != nil {
			out.Panic = fmt.Sprint(r)
			out.PanicType = fmt.Sprintf("%T", r)
			_, out.RuntimeError = r.(goruntime.Error)
		}
	}()
	for _, r := range f() {
		out.Results = append(out.Results, verifDump(reflect.ValueOf(&r).Elem().Elem(), 0))
	}
	return
}
`

// runInPackage builds and runs a tiny driver that calls body (Go statements returning
// []interface{} of results) inside package pkgName of /repo through a build overlay.
func runInPackage(pkgName, body string, timeout time.Duration) (string, string, error) {
	pkgDir := map[string]string{"otto": repoDir, "parser": repoDir + "/parser", "ast": repoDir + "/ast", "file": repoDir + "/file"}[pkgName]
	imp := map[string]string{"otto": "github.com/robertkrimen/otto", "parser": "github.com/robertkrimen/otto/parser",
		"ast": "github.com/robertkrimen/otto/ast", "file": "github.com/robertkrimen/otto/file"}[pkgName]
	if pkgDir == "" {
		return "", "", fmt.Errorf("no replay support for package %s", pkgName)
	}
	tmp, err := os.MkdirTemp("", "gowp-replay-")
	if err != nil {
		return "", "", err
	}
	defer os.RemoveAll(tmp)
	extraImports := ""
	for _, ln := range strings.Split(body, "\n") {
		if strings.HasPrefix(ln, "//import ") {
			extraImports += fmt.Sprintf("\t%q\n", strings.TrimPrefix(ln, "//import "))
		}
	}
	src := fmt.Sprintf(`package %s

import (
	"encoding/json"
	"fmt"
	"math"
	"os"
	"reflect"
	goruntime "runtime"
`+extraImports+`)

var _ = math.Pi
%s

// VerifReplay is injected by /verif through a build overlay; it is not part of the repository.
func VerifReplay() {
	out := verifRun(func() []interface{} {
%s
	})
	b, _ := json.Marshal(out)
	fmt.Fprintln(os.Stdout, string(b))
}
`, pkgName, replaySupport, body)
	os.MkdirAll(filepath.Join(tmp, "inj"), 0o755)
	os.MkdirAll(filepath.Join(tmp, "drv"), 0o755)
	inj := filepath.Join(tmp, "inj", "zz_verif_replay.go")
	os.WriteFile(inj, []byte(src), 0o644)
	ov, _ := json.Marshal(map[string]interface{}{"Replace": map[string]string{filepath.Join(pkgDir, "zz_verif_replay.go"): inj}})
	os.WriteFile(filepath.Join(tmp, "ov.json"), ov, 0o644)
	os.WriteFile(filepath.Join(tmp, "drv", "main.go"), []byte(fmt.Sprintf("package main\n\nimport p %q\n\nfunc main() { p.VerifReplay() }\n", imp)), 0o644)
	gomod, _ := os.ReadFile(filepath.Join(repoDir, "go.mod"))
	mod := "module verifreplay\n\ngo 1.22\n\nrequire github.com/robertkrimen/otto v0.0.0\n\nreplace github.com/robertkrimen/otto => " + repoDir + "\n"
	// carry over the repository's own requirements so that -mod=mod resolves offline
	if i := bytes.Index(gomod, []byte("require")); i >= 0 {
		mod += "\n" + string(gomod[i:])
	}
	os.WriteFile(filepath.Join(tmp, "drv", "go.mod"), []byte(mod), 0o644)
	if sum, err := os.ReadFile(filepath.Join(repoDir, "go.sum")); err == nil {
		os.WriteFile(filepath.Join(tmp, "drv", "go.sum"), sum, 0o644)
	}
	env := append(os.Environ(), "GOFLAGS=-mod=mod", "GOPROXY=off", "GOSUMDB=off", "GOTOOLCHAIN=local")
	ctx, cancel := context.WithTimeout(context.Background(), 120*time.Second)
	defer cancel()
	build := exec.CommandContext(ctx, "go", "build", "-overlay", filepath.Join(tmp, "ov.json"), "-o", filepath.Join(tmp, "drv", "drv"), ".")
	build.Dir = filepath.Join(tmp, "drv")
	build.Env = env
	if out, err := build.CombinedOutput(); err != nil {
		return "", src, fmt.Errorf("replay build failed: %v\n%s", err, out)
	}
	rctx, rcancel := context.WithTimeout(context.Background(), timeout)
	defer rcancel()
	run := exec.CommandContext(rctx, "/bin/sh", "-c", "ulimit -v 4000000; exec "+filepath.Join(tmp, "drv", "drv"))
	var so, se bytes.Buffer
	run.Stdout = &so
	run.Stderr = &se
	err = run.Run()
	if err != nil && so.Len() == 0 {
		msg := se.String()
		if len(msg) > 1500 {
			msg = msg[:1500]
		}
		if rctx.Err() != nil {
			return "", src, fmt.Errorf("replay timed out after %s (non-termination?)", timeout)
		}
		return `{"panic":"process died","panic_type":"fatal","runtime_error":true}`, src, fmt.Errorf("replay process failed: %v: %s", err, msg)
	}
	return strings.TrimSpace(so.String()), src, nil
}

type dumpNode struct {
	K string     `json:"k"`
	T string     `json:"t"`
	V string     `json:"v"`
	F []dumpNode `json:"f"`
}

type outcome struct {
	Panic        string     `json:"panic"`
	PanicType    string     `json:"panic_type"`
	RuntimeError bool       `json:"runtime_error"`
	Results      []dumpNode `json:"results"`
}

// smtOfDump converts an observed value into an SMT term of the sort of Go type t.
func (e *FnEnc) smtOfDump(n dumpNode, t types.Type) (string, error) {
	s := e.R.sortOf(t)
	switch n.K {
	case "bool":
		return n.V, nil
	case "int", "uint":
		x, ok := new(big.Int).SetString(n.V, 10)
		if !ok || !isBVSort(s) {
			return "", fmt.Errorf("bad int dump")
		}
		return bvLitBig(x, bitsOfSort(s)), nil
	case "f64":
		x, _ := new(big.Int).SetString(n.V, 16)
		return fmt.Sprintf("((_ to_fp 11 53) %s)", bvLitBig(x, 64)), nil
	case "f32":
		x, _ := new(big.Int).SetString(n.V, 16)
		return fmt.Sprintf("((_ to_fp 8 24) %s)", bvLitBig(x, 32)), nil
	case "string":
		var raw []byte
		fmt.Sscanf(n.V, "%x", &raw)
		return e.R.strConst(string(raw)), nil
	case "struct":
		st, ok := t.Underlying().(*types.Struct)
		if !ok || len(n.F) != st.NumFields() {
			return "", fmt.Errorf("struct dump mismatch")
		}
		si := e.R.structOf(t)
		parts := []string{"(mk-" + si.name}
		for i := range n.F {
			ft, err := e.smtOfDump(n.F[i], st.Field(i).Type())
			if err != nil {
				return "", err
			}
			parts = append(parts, ft)
		}
		if len(n.F) == 0 {
			return "mk-" + si.name, nil
		}
		return strings.Join(parts, " ") + ")", nil
	case "iface-nil":
		return "I_nil", nil
	case "iface":
		for m, dt := range e.R.ifaceTypes {
			if typeNameMatches(dt, n.T) {
				inner, err := e.smtOfDump(n.F[0], dt)
				if err != nil {
					return "", err
				}
				return fmt.Sprintf("(I_%s %s)", m, inner), nil
			}
		}
		return "(I_other 1 1)", nil
	case "ref-nil":
		return "0", nil
	case "ref":
		return "", fmt.Errorf("reference result not comparable")
	}
	return "", fmt.Errorf("cannot convert observed %s", n.K)
}

func typeNameMatches(t types.Type, reflectName string) bool {
	return typeName(t) == reflectName
}
