package main

import (
	"fmt"
	"hash/fnv"
	"go/types"
	"math/big"
	"sort"
	"strings"
)

// ---------------------------------------------------------------------------
// Sorts.  SMT sorts are plain strings; the mapping from Go types is fixed here.
//
//   bool                 Bool
//   intN/uintN           (_ BitVec N)        (int, uint, uintptr are 64 bit: linux/amd64)
//   float64 / float32    Float64 / Float32
//   string               Str                 (uninterpreted; slen/sbyte/ssub/scat functions)
//   pointer, map, chan,
//   func, unsafe ptr     Int                 (a reference; 0 is nil)
//   slice                Slice               (ref, off, len, cap)
//   interface            Iface               (one constructor per concrete dynamic type)
//   struct               S_<name>            (SMT datatype, one selector per field)
//   array [N]T           (Array (_ BitVec 64) T)
// ---------------------------------------------------------------------------

const bv64 = "(_ BitVec 64)"

type structInfo struct {
	name   string // SMT sort name
	st     *types.Struct
	fields []string // selector names
	sorts  []string
}

// TypeReg collects the datatypes, interface payload types and heap arrays that one
// verification query needs.  Everything is registered lazily while encoding and
// printed as the query prelude.
type TypeReg struct {
	structs     map[string]*structInfo // by sort name
	structOrder []string
	ifaceTypes  map[string]types.Type // mangled name -> concrete type
	ifaceOrder  []string
	heapDecl    map[string]string // initial heap array constant -> sort
	heapOrder   []string
	strConsts   map[string]string // literal -> const name
	strOrder    []string
	extraDecls  []string // uninterpreted function declarations etc (deduped)
	extraSeen   map[string]bool
}

func newTypeReg() *TypeReg {
	return &TypeReg{structs: map[string]*structInfo{}, ifaceTypes: map[string]types.Type{},
		heapDecl: map[string]string{}, strConsts: map[string]string{}, extraSeen: map[string]bool{}}
}

func mangle(s string) string {
	var b strings.Builder
	for _, r := range s {
		switch {
		case r >= 'a' && r <= 'z', r >= 'A' && r <= 'Z', r >= '0' && r <= '9', r == '_':
			b.WriteRune(r)
		case r == '*':
			b.WriteString("P.")
		case r == '[':
			b.WriteString("L.")
		case r == ']':
			b.WriteString(".J")
		case r == '.', r == '/':
			b.WriteRune('.')
		case r == ' ':
		default:
			b.WriteString(fmt.Sprintf(".x%x.", r))
		}
	}
	return b.String()
}

func typeName(t types.Type) string {
	return types.TypeString(t, func(p *types.Package) string { return p.Name() })
}

func (r *TypeReg) sortOf(t types.Type) string {
	switch u := t.(type) {
	case *types.Named:
		if st, ok := u.Underlying().(*types.Struct); ok {
			return r.structSort("S_"+mangle(typeName(u)), st)
		}
		return r.sortOf(u.Underlying())
	case *types.Alias:
		return r.sortOf(types.Unalias(u))
	case *types.Basic:
		switch u.Kind() {
		case types.Bool, types.UntypedBool:
			return "Bool"
		case types.Int8, types.Uint8:
			return "(_ BitVec 8)"
		case types.Int16, types.Uint16:
			return "(_ BitVec 16)"
		case types.Int32, types.Uint32, types.UntypedRune:
			return "(_ BitVec 32)"
		case types.Int, types.Uint, types.Int64, types.Uint64, types.Uintptr, types.UntypedInt:
			return bv64
		case types.Float64, types.UntypedFloat:
			return "Float64"
		case types.Float32:
			return "Float32"
		case types.String, types.UntypedString:
			return "Str"
		case types.UnsafePointer:
			return "Int"
		case types.UntypedNil:
			return "Int"
		}
		return "Int"
	case *types.Pointer, *types.Map, *types.Chan, *types.Signature:
		return "Int"
	case *types.Slice:
		return "Slice"
	case *types.Interface:
		return "Iface"
	case *types.Struct:
		return r.structSort("S_anon_"+mangle(typeName(u)), u)
	case *types.Array:
		return "(Array (_ BitVec 64) " + r.sortOf(u.Elem()) + ")"
	case *types.TypeParam:
		return "Iface"
	case *types.Tuple:
		return "TUPLE"
	}
	return "Int"
}

func (r *TypeReg) structSort(name string, st *types.Struct) string {
	if _, ok := r.structs[name]; ok {
		return name
	}
	si := &structInfo{name: name, st: st}
	r.structs[name] = si // before recursion
	for i := 0; i < st.NumFields(); i++ {
		si.fields = append(si.fields, fmt.Sprintf("%s.%s", name, st.Field(i).Name()))
		si.sorts = append(si.sorts, r.sortOf(st.Field(i).Type()))
	}
	r.structOrder = append(r.structOrder, name)
	return name
}

func (r *TypeReg) structOf(t types.Type) *structInfo {
	s := r.sortOf(t)
	return r.structs[s]
}

// ifaceCtor registers concrete type t as a possible dynamic type and returns its
// constructor name.  Selector is "v_"+suffix, tester "(_ is ctor)".
func (r *TypeReg) ifaceCtor(t types.Type) string {
	t = types.Unalias(t)
	m := mangle(typeName(t))
	if _, ok := r.ifaceTypes[m]; !ok {
		r.ifaceTypes[m] = t
		r.ifaceOrder = append(r.ifaceOrder, m)
		r.sortOf(t)
	}
	return "I_" + m
}

func (r *TypeReg) heapConst(name, sort string) string {
	if _, ok := r.heapDecl[name]; !ok {
		r.heapDecl[name] = sort
		r.heapOrder = append(r.heapOrder, name)
	}
	return name
}

func (r *TypeReg) extra(decl string) {
	if !r.extraSeen[decl] {
		r.extraSeen[decl] = true
		r.extraDecls = append(r.extraDecls, decl)
	}
}

func (r *TypeReg) strConst(lit string) string {
	if n, ok := r.strConsts[lit]; ok {
		return n
	}
	n := strLitName(lit)
	r.strConsts[lit] = n
	r.strOrder = append(r.strOrder, lit)
	return n
}

const preludeFixed = `(set-logic ALL)
(declare-sort Str 0)
(declare-fun slen (Str) (_ BitVec 64))
(declare-fun sbyte (Str (_ BitVec 64)) (_ BitVec 8))
(declare-fun ssub (Str (_ BitVec 64) (_ BitVec 64)) Str)
(declare-fun scat (Str Str) Str)
(declare-datatypes ((Slice 0)) (((mk-slice (sl-ref Int) (sl-off (_ BitVec 64)) (sl-len (_ BitVec 64)) (sl-cap (_ BitVec 64))))))
(define-fun nil-slice () Slice (mk-slice 0 #x0000000000000000 #x0000000000000000 #x0000000000000000))
`

// prelude prints sorts, datatypes, heap constants and string literals.
func (r *TypeReg) prelude(specDefs string) string {
	var b strings.Builder
	b.WriteString(preludeFixed)
	// make sure every iface payload sort is registered before printing
	for i := 0; i < len(r.ifaceOrder); i++ {
		r.sortOf(r.ifaceTypes[r.ifaceOrder[i]])
	}
	// one mutually recursive block: all structs + Iface
	names := append([]string{}, r.structOrder...)
	sort.Strings(names)
	b.WriteString("(declare-datatypes (")
	for _, n := range names {
		fmt.Fprintf(&b, "(%s 0) ", n)
	}
	b.WriteString("(Iface 0)) (\n")
	for _, n := range names {
		si := r.structs[n]
		fmt.Fprintf(&b, " ((mk-%s", n)
		for i := range si.fields {
			fmt.Fprintf(&b, " (%s %s)", si.fields[i], si.sorts[i])
		}
		b.WriteString("))\n")
	}
	b.WriteString(" ((I_nil)")
	ms := append([]string{}, r.ifaceOrder...)
	sort.Strings(ms)
	for _, m := range ms {
		fmt.Fprintf(&b, " (I_%s (v_%s %s))", m, m, r.sortOf(r.ifaceTypes[m]))
	}
	b.WriteString(" (I_other (other-tag Int) (other-ref Int)))\n))\n")
	for _, h := range r.heapOrder {
		fmt.Fprintf(&b, "(declare-const %s %s)\n", h, r.heapDecl[h])
	}
	for _, lit := range r.strOrder {
		n := strLitName(lit)
		fmt.Fprintf(&b, "(declare-const %s Str) ; %q\n", n, lit)
		fmt.Fprintf(&b, "(assert (= (slen %s) %s))\n", n, bvLit(int64(len(lit)), 64))
		if len(lit) <= 64 {
			for k := 0; k < len(lit); k++ {
				fmt.Fprintf(&b, "(assert (= (sbyte %s %s) %s))\n", n, bvLit(int64(k), 64), bvLit(int64(lit[k]), 8))
			}
		}
	}
	// distinct literals of the same length are still different strings
	for i := 0; i < len(r.strOrder); i++ {
		for j := i + 1; j < len(r.strOrder); j++ {
			if len(r.strOrder[i]) == len(r.strOrder[j]) && len(r.strOrder[i]) > 64 {
				fmt.Fprintf(&b, "(assert (not (= %s %s)))\n", strLitName(r.strOrder[i]), strLitName(r.strOrder[j]))
			}
		}
	}
	for _, d := range r.extraDecls {
		b.WriteString(d)
		b.WriteString("\n")
	}
	b.WriteString(specDefs)
	return b.String()
}

// ---------------------------------------------------------------------------
// literals and small helpers
// ---------------------------------------------------------------------------

func bvLit(v int64, bits int) string {
	x := big.NewInt(v)
	return bvLitBig(x, bits)
}

func bvLitBig(x *big.Int, bits int) string {
	m := new(big.Int).Lsh(big.NewInt(1), uint(bits))
	y := new(big.Int).Mod(x, m)
	if y.Sign() < 0 {
		y.Add(y, m)
	}
	if bits%4 == 0 {
		return fmt.Sprintf("#x%0*s", bits/4, y.Text(16))
	}
	return fmt.Sprintf("#b%0*s", bits, y.Text(2))
}

func bitsOfSort(s string) int {
	var n int
	if _, err := fmt.Sscanf(s, "(_ BitVec %d)", &n); err == nil {
		return n
	}
	return 0
}

func isBVSort(s string) bool    { return strings.HasPrefix(s, "(_ BitVec") }
func isFloatSort(s string) bool { return s == "Float64" || s == "Float32" }

func fpLit(f float64, sort string) string {
	if sort == "Float32" {
		bits := uint64(float32bits(float32(f)))
		return fmt.Sprintf("((_ to_fp 8 24) %s)", bvLit(int64(bits), 32))
	}
	bits := float64bits(f)
	return fmt.Sprintf("((_ to_fp 11 53) %s)", bvLitBig(new(big.Int).SetUint64(bits), 64))
}

func and(xs ...string) string {
	var ys []string
	for _, x := range xs {
		if x == "true" || x == "" {
			continue
		}
		if x == "false" {
			return "false"
		}
		ys = append(ys, x)
	}
	switch len(ys) {
	case 0:
		return "true"
	case 1:
		return ys[0]
	}
	return "(and " + strings.Join(ys, " ") + ")"
}

func or(xs ...string) string {
	var ys []string
	for _, x := range xs {
		if x == "false" || x == "" {
			continue
		}
		if x == "true" {
			return "true"
		}
		ys = append(ys, x)
	}
	switch len(ys) {
	case 0:
		return "false"
	case 1:
		return ys[0]
	}
	return "(or " + strings.Join(ys, " ") + ")"
}

func not(x string) string {
	switch x {
	case "true":
		return "false"
	case "false":
		return "true"
	}
	return "(not " + x + ")"
}

func implies(a, b string) string {
	if a == "true" {
		return b
	}
	if b == "true" || a == "false" {
		return "true"
	}
	return "(=> " + a + " " + b + ")"
}

func ite(c, a, b string) string {
	if c == "true" {
		return a
	}
	if c == "false" {
		return b
	}
	if a == b {
		return a
	}
	return "(ite " + c + " " + a + " " + b + ")"
}

// strLitName: a name for a string literal constant that depends only on its content.
func strLitName(lit string) string {
	h := fnv.New64a()
	h.Write([]byte(lit))
	return fmt.Sprintf("strlit!%d!%x", len(lit), h.Sum64())
}
