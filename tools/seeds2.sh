#!/bin/sh
# confirm and run second-round seeds for the given property ids
for p in "$@"; do for k in 4 5; do d=/tmp/seeds2/$p/$k; [ -d $d ] || continue; /verif/tools/confirmseed.sh $d $p-$k && /verif/tools/seedmatrix.sh $p-$k; done; done
