#!/bin/sh
# usage: confirmseed.sh <seeddir> <id>      (seeddir holds patch.diff, demo_test.go, meta.json)
# Confirms a seeded change in a scratch copy of /repo (never /repo itself):
#   1. the demonstration passes on the unchanged tree,
#   2. the patch applies and the tree still builds,
#   3. the demonstration fails on the changed tree,
#   4. the existing test suite still passes on the changed tree.
# On success the seed is stored as /verif/seeded/<id>/ with what was run appended to meta.json.
seed="$1"; id="$2"
export GOFLAGS=-mod=mod GOPROXY=off GOSUMDB=off GOTOOLCHAIN=local
tmp=$(mktemp -d /tmp/gowp-confirm-XXXXXX)
trap 'rm -rf "$tmp"' EXIT
rsync -a --exclude .git /repo/ "$tmp/repo/"
pkgdir=$(python3 - "$seed" <<'EOF'
import sys,re
s=open(sys.argv[1]+'/demo_test.go').read()
m=re.search(r'^package (\w+)',s,re.M)
p=m.group(1)
print({'otto':'.','otto_test':'.','parser':'parser','ast':'ast','ast_test':'ast','file':'file','token':'token','parser_test':'parser'}.get(p,'.'))
EOF
)
cp "$seed/demo_test.go" "$tmp/repo/$pkgdir/zz_seed_demo_test.go"
run=$(grep -o 'func Test[A-Za-z0-9_]*' "$seed/demo_test.go" | sed 's/func //' | paste -sd'|')
cd "$tmp/repo/$pkgdir" || exit 2
if ! go test -vet=off -count=1 -timeout 120s -run "^($run)\$" . >"$tmp/base.log" 2>&1; then
  echo "REJECT $id: demonstration fails on the unchanged tree"; tail -5 "$tmp/base.log"; exit 1
fi
cd "$tmp/repo"
if ! patch -p1 -s --no-backup-if-mismatch < "$seed/patch.diff" >"$tmp/patch.log" 2>&1; then
  echo "REJECT $id: patch does not apply"; exit 1
fi
if ! go build ./... >"$tmp/build.log" 2>&1; then
  echo "REJECT $id: changed tree does not build"; exit 1
fi
cd "$tmp/repo/$pkgdir"
if go test -vet=off -count=1 -timeout 120s -run "^($run)\$" . >"$tmp/demo.log" 2>&1; then
  echo "REJECT $id: demonstration passes on the changed tree"; exit 1
fi
rm -f "$tmp/repo/$pkgdir/zz_seed_demo_test.go"
cd "$tmp/repo"
if ! go test -vet=off -count=1 -timeout 25m ./... >"$tmp/suite.log" 2>&1; then
  echo "REJECT $id: existing test suite fails on the changed tree"; grep -m5 "^--- FAIL\|^FAIL" "$tmp/suite.log"; exit 1
fi
mkdir -p "/verif/seeded/$id"
cp "$seed/patch.diff" "/verif/seeded/$id/patch.diff"
cp "$seed/demo_test.go" "/verif/seeded/$id/demo_test.go"
python3 - "$seed/meta.json" "/verif/seeded/$id/meta.json" "$run" "$pkgdir" <<'EOF'
import json,sys
m=json.load(open(sys.argv[1]))
out={"property":m.get("property"),"summary":m.get("summary"),"needs":m.get("needs"),"files":m.get("files"),"functions":m.get("functions"),
 "confirmed":{"how":"tools/confirmseed.sh in a scratch copy of /repo (HEAD incl. fix commits)","demo_package_dir":sys.argv[4],
  "ran":["go test -run '^(%s)$' .  (unchanged tree: PASS)"%sys.argv[3],"patch -p1 < patch.diff; go build ./...  (ok)",
         "go test -run '^(%s)$' .  (changed tree: FAIL)"%sys.argv[3],"go test -count=1 ./...  (changed tree, demo removed: PASS)"]}}
json.dump(out,open(sys.argv[2],'w'),indent=1)
EOF
echo "CONFIRMED $id"
