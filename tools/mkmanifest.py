#!/usr/bin/env python3
"""Regenerates /verif/MANIFEST.json from the table below (claimed properties, level texts,
not-applicable reasons) and the contract-file commits found in /repo."""
import json, subprocess

CLAIMED = {
 "C02": dict(
  text="Proof (SMT-discharged verification conditions generated from the go/ssa form of the real code) that no index, slice, nil-dereference, type-assertion, division or make-size panic and no foreign (non-JavaScript-exception) panic is reachable in any function placed under contract, for all inputs satisfying the callers' invariants (wfValue etc.); plus exact stack-limit accounting of enterScope. It is the zero-annotation safety sweep over the verified call tree, not over every built-in.",
  note="Trusted: gowp itself, go/ssa, solvers, amd64 conversion table; callees without contract are havocked; library calls only by assumed contracts listed in the evidence; panics inside library code are outside the sweep.",
  technique="contract-based deductive verification: weakest-precondition VCs over go/ssa, safety obligations discharged by z3/cvc5",
  ref="6 C02"),
 "C04": dict(
  text="Proof, for every byte string including invalid UTF-8, that the lexer and the RegExp pattern scanner keep their offsets inside the source (every index and slice expression is in bounds), that every scanning loop terminates (lexicographic variant: offset, then EOF flag), that every token makes progress unless it is EOF, and that every error position handed to the error list lies inside the input; that ast.Walk visits only non-nil children and never hands a nil pointer boxed in an interface to a visitor; plus the list-based span methods. Grammar-level rejection (early errors) and spans of all 65 node kinds are not covered.",
  note="Trusted: gowp, go/ssa, solvers; utf8.DecodeRuneInString per documentation; ID_Start subset of ID_Continue; parser invariant 'interface-typed AST fields hold proper nodes' assumed for Walk; statement/expression parser functions are outside the contracts. Three span defects are recorded as known findings.",
  technique="contract-based deductive verification: lexer state invariant + loop invariants/variants, safety VCs over go/ssa discharged by z3/cvc5",
  ref="6 C04"),
 "C05": dict(
  text="Proof for all 2^64 doubles and every Go numeric payload type that ToInt32/ToUint32/ToUint16/ToInteger and the saturating index conversion equal the ES5 9.4-9.7 definitions written over the IEEE-754 fields, plus the operator kernels listed in the evidence; string and object operands (strconv, scripted valueOf) are not covered.",
  note="Trusted: gowp, go/ssa, solvers, amd64 float->int table; math.* per Go documentation; (*object).DefaultValue result well-formedness is a trusted contract.",
  technique="contract-based deductive verification: postconditions from ES5 sections 9/11 as SMT FP/BV spec functions, VCs over go/ssa discharged by z3/cvc5",
  ref="6 C05"),
 "C06": dict(
  text="Proof of the guards and special cases around number formatting and parseInt, not of the digits: ToString of a double names NaN and the infinities and chooses the plain decimal layout exactly for 1e-6 <= |x| < 1e21 (all doubles) and hands the value itself to the digit generator with 'shortest' precision; toFixed/toExponential/toPrecision/toString(radix) throw RangeError exactly when ToInteger of the argument is outside 0..20, 0..20, 1..21, 2..36 (for every numeric argument, including NaN and +-Infinity) and return 'NaN' for a NaN receiver in the step order of 15.7.4.5-7; parseInt keeps every index into the text in bounds, maps digit characters to their values and applies a leading '-' on the float-accumulation path (non-negative accumulator invariant). The digit strings themselves (strconv shortest round-trip, exponent layout, radix fractions), parseFloat, Number() of strings and numeric literals are library- or regexp-decided and not covered.",
  note="Trusted: gowp, go/ssa, solvers; strconv.FormatFloat/ParseInt are library calls whose results are not modelled (only their call arguments are specified); arguments assumed numeric and primitive in the guard contracts. Three defects fixed, layout defects recorded as a known finding.",
  technique="contract-based deductive verification: throws/ensures guards over ToInteger spec functions and at_call assertions on library calls; VCs over go/ssa discharged by z3/cvc5",
  ref="6 C06"),
 "C07": dict(
  text="Proof that [[DefineOwnProperty]] (ES5 8.12.9) accepts, rejects and merges attributes exactly as the thirteen steps prescribe, stated over the whole resulting property record and the whole property table (nothing else changes), for every current property and descriptor; [[GetOwnProperty]], [[GetProperty]], [[CanPut]] (own/inherited data and accessor cases, extensibility) and [[Delete]] per 8.12.1-7; the octal attribute algebra; dispatch-table slots. Histories are covered by induction over these per-operation contracts (paper lemma), prototype chains through the trusted dispatcher contracts.",
  note="Trusted: gowp, go/ssa, solvers; dispatcher methods ((*object).getOwnProperty etc.) are trusted contracts tied to the table obligations; SameValue as an abstract function; propertyOrder contents (enumeration order) not yet specified.",
  technique="contract-based deductive verification: ES5 8.12 as pre/postconditions over map-heap views, VCs over go/ssa discharged by z3/cvc5",
  ref="6 C07"),
 "C08": dict(
  text="Proof of the array kernels that every Array operation goes through: only canonical decimal strings (no sign, no leading zeros) below 2^32-1 are array indices (stringToArrayIndex, range and canonical-form clauses); a new length is accepted iff it is an integer in [0, 2^32-1] and is a RangeError otherwise (arrayUint32/isUint32, for all doubles and integer payloads); relative start/end/length arguments are clamped exactly as ES5 15.4.4.10/12 prescribe (valueToRangeIndex, rangeStartEnd, rangeStartLength as closed formulas over ToInteger); in array [[DefineOwnProperty]] (15.4.5.1) the value written to length is the validated new length, index+1 when an index at or beyond length is defined, and one more than the index of the element whose deletion failed when truncation stops early, and the truncation loop runs downwards and terminates; dispatch-table slots of the array class. The Array.prototype methods themselves (callbacks, holes, generic receivers, sort) are not covered.",
  note="Trusted: gowp, go/ssa, solvers; strconv.ParseInt result not modelled (the canonical-form clause is proved from the guard in front of it); in arrayDefineOwnProperty the callees objectDefineOwnProperty/getOwnProperty/delete are abstracted (havoc) and the clauses are assertions at their call sites. One defect fixed (non-canonical index strings).",
  technique="contract-based deductive verification: postconditions over closed clamp formulas, at_call assertions and loop variant in 15.4.5.1; VCs over go/ssa discharged by z3/cvc5",
  ref="6 C08"),
 "C09": dict(
  text="Proof of the position handling of String.prototype methods: slice/substring/substr clamp ToInteger of their arguments into [0, length] by the closed formulas of ES5 15.5.4.13-15 and never slice outside the string for any argument (NaN, +-Infinity, values saturating ToInteger); charAt/charCodeAt pass ToInteger of the position (never a wrapped 32-bit value) to the code-unit accessor, accept any receiver (String object content, else ToString) and never dereference a missing string object; lastIndexOf/indexOf keep every slice of the subject in bounds and treat only +Infinity as 'from the end'; indexOf/lastIndexOf convert the byte offset of a match by counting UTF-16 code units. UTF-16 correctness of offsets for non-ASCII subjects (mixed byte/rune/code-unit offsets, known finding), split/replace/match, case mapping and localeCompare are not covered.",
  note="Trusted: gowp, go/ssa, solvers; strings.Index/LastIndex as a fixed function with -1 <= r <= len(s)-len(t); utf16.Encode length bounds; argument lists not written during a native call (stable). Three defects fixed (substr overflow panic, charAt on generic receivers, lastIndexOf with -Infinity / huge positions), two recorded.",
  technique="contract-based deductive verification: safety VCs (slice bounds) and at_call assertions over ToInteger spec functions, go/ssa VCs discharged by z3/cvc5",
  ref="6 C09"),
 "C10": dict(
  text="Proof of pieces of the regular-expression pipeline that are independent of the regular-expression semantics: the pattern scanner (TransformRegExp and its scanEscape/scanGroup/scanBracket) keeps every index inside the pattern for every byte string and terminates (shared with C04); control escapes \\cX are rewritten to the character X mod 32 for exactly the letters a-z, A-Z and kept literally otherwise; RegExp.prototype.exec's core accepts only RegExp objects, never slices the subject out of bounds, and resets lastIndex to 0 on every failed match (no match, or lastIndex outside [0, length]); String.prototype.split with a RegExp separator never returns more than limit elements (substrings and captures). That the translated pattern matches exactly the ES5-specified strings with the specified captures (the semantics of Go's regexp against 15.10.2), flags handling beyond the fixed SyntaxError, $-substitution, match/replace/search are not covered.",
  note="Trusted: gowp, go/ssa, solvers; regexp.Find*Index per documentation (nil or an even number of in-range offsets); bytes.Buffer writes are library calls whose arguments are specified; [[Get]] yields language values (trusted). One defect fixed (unknown flags accepted).",
  technique="contract-based deductive verification: safety VCs, at_call assertions on the rewriting calls, ghost call events for the lastIndex protocol, loop invariants for the split limit; go/ssa VCs discharged by z3/cvc5",
  ref="6 C10"),
 "C11": dict(
  text="Proof of the code around the JSON codec, which itself is Go's encoding/json (a library, not verified): JSON.parse hands the decoder the text of its argument with nothing stripped or added (same length as ToString of the argument) and maps decoded null/bool/string/number leaves to the corresponding primitive values; in JSON.stringify the property list built from an array replacer is packed - every slot of the final list is a name that was accepted and recorded (strings, numbers, String/Number objects, no duplicates) - and a numeric gap is clamped to 0..10. That parse accepts exactly the ES5 15.12.1 grammar, reviver order, toJSON/replacer-function order, wrapper unboxing, cycle detection and round-trip equality are not covered (grammar and serialisation live in encoding/json; the walkers call back into scripts).",
  note="Trusted: gowp, go/ssa, solvers; encoding/json is an unmodelled library (only the arguments passed to it are specified); [[Get]] yields language values. One defect fixed (property list lost entries).",
  technique="contract-based deductive verification: loop invariant relating the property list to the 'seen' set, at_call assertions with ghost call results; go/ssa VCs discharged by z3/cvc5",
  ref="6 C11"),
 "C12": dict(
  text="Proof of the validity discipline and field conventions of Date: dateObject.Set makes the date invalid exactly for NaN, +-Infinity and |t| > 8.64e15 (TimeClip) and otherwise stores ToInteger(t) as an int64 Value and clears the invalid flag, for every double; epochToTime fails exactly outside the valid range; dateObjectOf throws for non-Date receivers; each of the 20 accessors returns NaN and each of the 9 formatters 'Invalid Date' for an invalid date; the shared setter prologue keeps an invalid date invalid, makes the receiver invalid when a supplied field is missing, NaN or infinite, and otherwise returns min(limit, argc) >= 1 fields; Date.UTC / the multi-argument constructor return NaN when any supplied field is NaN or infinite, pass ToInteger(year) (+1900 for 0..99), month+1 and day (default 1) to the calendar; months are shifted by one in both directions; the time value of a Go time is its UnixMilli. The calendar arithmetic itself (Go's time package), field extraction, ISO parsing/formatting and local time are not covered.",
  note="Trusted: gowp, go/ssa, solvers; time.Date/Unix/UnixMilli are library calls (only their call arguments are specified); FunctionCall.thisObject is a trusted contract; argument lists stable during a native call; arguments assumed primitive in newDateTime/BeforeSet (valueOf of objects is user code). Three defects fixed (TimeClip, setTime on invalid dates, two-digit years), one recorded.",
  technique="contract-based deductive verification: object invariant of dateObject as postconditions, ghost call events (calls ... as) and at_call assertions on library calls; VCs over go/ssa discharged by z3/cvc5",
  ref="6 C12"),
 "C13": dict(
  text="Proof for all doubles that Math.round equals the ES5 15.8.2.15 definition (ties up, signed zero), the Math.pow/atan2 NaN rows that do not depend on library accuracy, and that escape() leaves exactly the B.2.1 character set unescaped; further kernels as listed in the evidence. Accuracy of transcendental functions and the URI sets (regexp, net/url) are not covered.",
  note="Trusted: gowp, go/ssa, solvers; math.Floor/Ceil/Copysign/Pow per Go documentation (assumed contracts listed in the evidence); argument arrays assumed not written during a native call.",
  technique="contract-based deductive verification: ES5 15.8 / B.2 as SMT FP/BV spec functions, VCs over go/ssa discharged by z3/cvc5",
  ref="6 C13"),
 "C18": dict(
  text="Proof over every exceptional edge (each call site is a potential panic point) that [[Call]] leaves the scope stack of the runtime exactly as it found it - on return, JavaScript exception, stack-limit RangeError, or a panic of a host function / interrupt handler - with the deferred leaveScope modelled on the paths that registered it; that enterScope pushes exactly one frame or throws RangeError with the stack untouched and admits exactly depths 0..limit-1; that enterFunctionScope and leaveScope push/pop one frame and never relink existing frames; and that every statement and expression evaluation polls the interrupt channel when one is installed. Prompt delivery by the Go scheduler and loops inside built-ins are not covered.",
  note="Trusted: gowp, go/ssa, solvers. Assumed inductive hypothesis (listed in evidence): code reached through function values (native/host functions, interrupt handlers) and cmplCallNodeFunction preserve runtime.scope and scope.outer. One known finding: try/catch catches host panics (pinned by an existing test).",
  technique="contract-based deductive verification: unwind_ensures/preserves obligations on exceptional edges with inlined defers, ghost events for polling; VCs over go/ssa discharged by z3/cvc5",
  ref="6 C18"),
 "C19": dict(
  text="Proof that every exception constructor builds the error of the class it is named after (TypeError, RangeError, ReferenceError, SyntaxError, URIError); that newError lists the innermost frame first, follows the callers in order, and returns at most traceLimit entries for every stack depth and limit; that file positions are nil exactly outside the source and otherwise have line >= 1 and 1 <= column <= offset+1; that error positions produced by the lexer lie inside the input; that the call-site offset of a call/new expression is recorded after the arguments are evaluated and equals the callee expression's index; and that in/instanceof raise instead of returning for non-object right operands. Message wording and the Error object graph are not covered.",
  note="Trusted: gowp, go/ssa, solvers; strings.Count/LastIndex per documentation; ottoError.describe (fmt) trusted; compiled node trees immutable (proved syntactically as a frame obligation).",
  technique="contract-based deductive verification: loop invariants for the trace limit, at_call state assertions, postconditions over go/ssa VCs discharged by z3/cvc5",
  ref="6 C19"),
 "C14": dict(
  text="Ground proof that a fresh runtime has the ES5 section 15 shape: for each of 276 rows written from ECMA-262 5.1 (every global function and constructor, every method of Object, Function.prototype, Array, String, Boolean, Number, Math, Date, RegExp, Error, JSON and their prototypes, the value properties of the global object, Math and Number, constructor/prototype links, [[Class]] and [[Prototype]] of every well-known object) newContext builds that property with the specified attributes (methods writable/non-enumerable/configurable, constants and function length all-false), the specified function length, a function object of class Function linked to Function.prototype, bound to the Go function named after it (builtin<Owner><Name>) with the matching name property, and listed in the owner's property order - 2095 ground obligations obtained by evaluating the composite literals of newContext over the typed AST of the real source on every run. Copies: runtime.clone replaces every well-known object position by position by its copy and objectClone keeps class, flags and property attributes (C17 contracts, counted here). Behaviour of the built-ins, non-ES5 extras and console are not covered.",
  note="This is the degenerate, input-free use of the technique: newContext has no inputs, so its postcondition is a table of closed facts decided by evaluation (constant folding) rather than by an SMT search; the evaluator is part of gowp and trusted. Three wrong function lengths fixed; the [[Class]] of NativeError prototypes recorded as a known finding.",
  technique="contract-based deductive verification, ground case: postcondition table of an input-free initialiser, obligations generated from the typed AST of the real code and decided by evaluation; clone contracts by go/ssa VCs and z3/cvc5",
  ref="6 C14"),
 "C15": dict(
  text="Proof for the scalar core of the Go <-> JavaScript value bridge: toValue carries every supported scalar over unchanged (bool, the ten integer types, float64 and string keep dynamic type and bits; float32 is widened exactly; nil is undefined; a Value is itself; *object becomes an object value) and every number it produces - also through the reflection arm, e.g. for named numeric types - carries a payload type the number kernels accept; Value.export returns the payload of a primitive unchanged, so export(toValue(x)) == x for those scalars follows from the two contracts; Value.number/float64/bool (ToInteger saturating, ToNumber, ToBoolean) equal the ES5 conversions for every payload (shared with C05); IsNaN reads the payload; growing a bridged slice copies from the old slice. Containers (export of arrays/objects, typed slices and maps), MarshalJSON and Call equivalence with in-language calls are not covered; the public ToInteger/ToFloat/ToString wrappers recover panics (catchPanic) and are outside the modelled exits.",
  note="Trusted: gowp, go/ssa, solvers; reflect accessors as assumed library contracts. The round-trip lemma is a two-line consequence of the toValue and export contracts, stated here, not a separate obligation. One defect fixed (named float32 payload).",
  technique="contract-based deductive verification: per-type postconditions over the interface datatype of go/ssa VCs, discharged by z3/cvc5",
  ref="6 C15"),
 "C16": dict(
  text="Proof, for every JavaScript number (all doubles and every Go integer payload) and every numeric target kind, that the two numeric conversion kernels of the bridge hand Go exactly the number or fail: convertNumeric (Go function parameters) returns a value of the parameter's kind numerically equal to the number or throws RangeError/TypeError - no truncated fraction, wrap-around or sign change for any of the ten integer widths; Value.toReflectValue (stores into bridged slices, arrays, maps) boxes an integer only when it equals the number (NaN, fractions of either sign, 2^63 and 2^64 are rejected); Value.export returns primitive payloads unchanged; exactly the names starting with A..Z are exported. Element-wise construction of slices/maps/structs, arity checks and method values (all inside reflect) are not covered; failed conversions on container stores surface as Go panics (known finding).",
  note="Trusted: gowp, go/ssa, solvers, amd64 float->int table. The reflect package is an assumed library: ValueOf/Kind/Int/Uint/Float/Zero/OverflowInt/OverflowUint/OverflowFloat/Convert per their documentation (abstract view rv-int/rv-uint/rv-float/rv-kind, listed in the evidence); math.Modf per documentation. One defect fixed (silent truncation in toReflectValue), one recorded.",
  technique="contract-based deductive verification: exactness postconditions and at_call assertions over an abstract model of reflect.Value, VCs over go/ssa discharged by z3/cvc5",
  ref="6 C16"),
 "C17": dict(
  text="Proof, per step of the graph cloner, of what Copy() copies, clones and never shares: cloner.object memoises (one copy per original object, entries never change); value/property/dclProperty/valueArray results are the memo-relational copy of their argument (primitives identical, every object reference the memo's copy, accessor sides cloned exactly when present, attributes equal); objectClone gives the copy the class, flags and class table of the original, the copy's runtime, the prototype through the memo, a freshly allocated property map whose entries are copies of the original's entries and a fresh property-order array with the same names in order, and clones the bound-function/arguments/closure payloads; the three environment-record clones and argumentsObject.clone likewise; runtime.clone replaces every well-known object position by position by its own copy and carries limits over; Copy returns a different Otto on a different runtime without the interrupt channel. Frame clauses prove that no step writes any pre-existing object, environment record, runtime, property table or array of the original (isolation at the moment of copying). Every function reachable through the objectClass.clone slot and the stasher.clone interface is proved against the slot contract (closed-world slotimpl obligation). Observational equivalence of arbitrary later scripts and completeness of map iteration are not covered.",
  note="Trusted: gowp, go/ssa, solvers. Assumed heap invariants (assumes clauses, listed in evidence): class tables installed, stored properties hold Value or propertyGetSet, object references in Values non-nil, objectStash.object non-nil, well-known objects installed. One defect found and fixed (Copy panicked on closures of functions with a parameter named arguments).",
  technique="contract-based deductive verification: memo-relational postconditions, ownership frames (preserves/writes_only_at) and slot contracts over go/ssa VCs discharged by z3/cvc5",
  ref="6 C17"),
 "C20": dict(
  text="Proof of the sharing discipline that isolation of runtimes rests on: every package-level variable of otto, parser, ast, file, token (and registry except its registry list) is written only by package initialisers (globals_readonly obligation over all stores in the SSA of the package); compiled node trees are never written after construction and node slices are confined (stabletypes / confinement obligations); runtime.otto, object.runtime and the cloner tables have the declared writers only; Copy/clone share no mutable record between original and copy (C17 frames) and the copy has no interrupt channel. Data-race freedom under the Go memory model and arbitrary host-goroutine schedules are not covered (no concurrency reasoning in this technique).",
  note="Trusted: gowp, go/ssa, solvers. Syntactic obligations are computed from the SSA of every function of the packages, not only those under contract. sync/atomic and mutex semantics not modelled.",
  technique="contract-based deductive verification: frame/ownership obligations (globals read-only, stable fields, slice confinement) generated from go/ssa and discharged syntactically or by z3/cvc5",
  ref="6 C20"),
}

NA = {
 "C01": "whole-evaluator refinement against the ES5 semantics: no function-sized contract can state it (DESIGN section 7); necessary conditions are proved under C05, C18, C19",
 "C03": "grammar refinement of a 60-function recursive-descent parser: needs a formal ES5 grammar as specification and an inductive proof over token streams (DESIGN section 7)",
}
NOT_REACHED = "contracts for this property are not yet discharged in this build (DESIGN section 10 staging); no check is claimed"

ALL = ["C%02d" % i for i in range(1, 21)]

def main():
    commits = subprocess.run(["git", "-C", "/repo", "log", "--format=%H", "--", ":(glob)**/contracts_verif*.go"],
                             capture_output=True, text=True).stdout.split()
    checks = []
    for pid in ALL:
        if pid not in CLAIMED:
            continue
        c = CLAIMED[pid]
        checks.append(dict(
            property_id=pid,
            quick_cmd="/verif/bin/gowp check -p %s -tier quick" % pid,
            thorough_cmd="/verif/bin/gowp check -p %s -tier thorough" % pid,
            evidence_file="/verif/evidence/%s.json" % pid,
            replay_cmd_template="/verif/bin/gowp replay {path}",
            engine="gowp",
            level_claimed=dict(category="proof", text=c["text"], design_ref="DESIGN.md section " + c["ref"]),
            level_note=c["note"],
            technique=c["technique"]))
    na = []
    for pid in ALL:
        if pid in CLAIMED:
            continue
        na.append(dict(property_id=pid, reason=NA.get(pid, NOT_REACHED)))
    m = dict(
        version=1,
        setup_cmd="cd /verif/engine && GOFLAGS=-mod=mod GOPROXY=off GOSUMDB=off GOTOOLCHAIN=local go build -o /verif/bin/gowp .",
        hooks=dict(guard="verif", enable="go/packages load with -tags=verif (comment-only contract files contracts_verif.go; compiled program is unchanged)",
                   baseline_off_cmd="cd /repo && GOFLAGS=-mod=mod GOPROXY=off GOSUMDB=off go test -mod=mod -json -vet=off -count=1 -timeout 25m ./...",
                   source_commits=commits, add_only=True),
        engines=[dict(name="gowp", path="/verif/engine", serves_properties=sorted(CLAIMED),
                      kind_free_text="self-built deductive verifier for Go: contracts in //@ comments, VC generation over go/ssa, obligations discharged by z3 4.8.12 / z3 5.1.0 / cvc5 1.0; counterexamples replayed on the real code through a build overlay")],
        checks=checks,
        not_applicable=na,
        notes="Contract-based deductive verification of the real code; see DESIGN.md. Known findings: known_findings.json.")
    json.dump(m, open("/verif/MANIFEST.json", "w"), indent=1)
    print("claimed", sorted(CLAIMED), "n/a", len(na))

main()
