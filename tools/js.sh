#!/bin/sh
# rebuild the JS probe against /repo's working tree and run it
export GOFLAGS=-mod=mod GOPROXY=off GOSUMDB=off GOTOOLCHAIN=local
(cd /verif/tools/jsrun && cp /repo/go.sum . && go build -o /verif/bin/jsrun .) && exec /verif/bin/jsrun "$@"
