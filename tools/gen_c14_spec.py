#!/usr/bin/env python3
"""Writes /repo/contracts_verif_c14.go: the ES5 section 15 shape of the standard library as
'builtin' clauses (owner, key, kind, function length, attributes).  The rows are written
from ECMA-262 5.1 section 15 (function lengths as given by the 'length property is N'
sentences or the number of named parameters), NOT derived from otto's generator input."""
FN = {
 "global": [("eval",1),("parseInt",2),("parseFloat",1),("isNaN",1),("isFinite",1),("decodeURI",1),("decodeURIComponent",1),
            ("encodeURI",1),("encodeURIComponent",1),("escape",1),("unescape",1)],
 "Object": [("getPrototypeOf",1),("getOwnPropertyDescriptor",2),("getOwnPropertyNames",1),("create",2),("defineProperty",3),
            ("defineProperties",2),("seal",1),("freeze",1),("preventExtensions",1),("isSealed",1),("isFrozen",1),("isExtensible",1),("keys",1)],
 "Object.prototype": [("toString",0),("toLocaleString",0),("valueOf",0),("hasOwnProperty",1),("isPrototypeOf",1),("propertyIsEnumerable",1)],
 "Function.prototype": [("toString",0),("apply",2),("call",1),("bind",1)],
 "Array": [("isArray",1)],
 "Array.prototype": [("toString",0),("toLocaleString",0),("concat",1),("join",1),("pop",0),("push",1),("reverse",0),("shift",0),("slice",2),
            ("sort",1),("splice",2),("unshift",1),("indexOf",1),("lastIndexOf",1),("every",1),("some",1),("forEach",1),("map",1),("filter",1),
            ("reduce",1),("reduceRight",1)],
 "String": [("fromCharCode",1)],
 "String.prototype": [("toString",0),("valueOf",0),("charAt",1),("charCodeAt",1),("concat",1),("indexOf",1),("lastIndexOf",1),("localeCompare",1),
            ("match",1),("replace",2),("search",1),("slice",2),("split",2),("substring",2),("toLowerCase",0),("toLocaleLowerCase",0),
            ("toUpperCase",0),("toLocaleUpperCase",0),("trim",0),("substr",2)],
 "Boolean.prototype": [("toString",0),("valueOf",0)],
 "Number.prototype": [("toString",1),("toLocaleString",0),("valueOf",0),("toFixed",1),("toExponential",1),("toPrecision",1)],
 "Math": [("abs",1),("acos",1),("asin",1),("atan",1),("atan2",2),("ceil",1),("cos",1),("exp",1),("floor",1),("log",1),("max",2),("min",2),
            ("pow",2),("random",0),("round",1),("sin",1),("sqrt",1),("tan",1)],
 "Date": [("parse",1),("UTC",7),("now",0)],
 "Date.prototype": [("toString",0),("toDateString",0),("toTimeString",0),("toLocaleString",0),("toLocaleDateString",0),("toLocaleTimeString",0),
            ("valueOf",0),("getTime",0),("getFullYear",0),("getUTCFullYear",0),("getMonth",0),("getUTCMonth",0),("getDate",0),("getUTCDate",0),
            ("getDay",0),("getUTCDay",0),("getHours",0),("getUTCHours",0),("getMinutes",0),("getUTCMinutes",0),("getSeconds",0),("getUTCSeconds",0),
            ("getMilliseconds",0),("getUTCMilliseconds",0),("getTimezoneOffset",0),("setTime",1),("setMilliseconds",1),("setUTCMilliseconds",1),
            ("setSeconds",2),("setUTCSeconds",2),("setMinutes",3),("setUTCMinutes",3),("setHours",4),("setUTCHours",4),("setDate",1),("setUTCDate",1),
            ("setMonth",2),("setUTCMonth",2),("setFullYear",3),("setUTCFullYear",3),("toUTCString",0),("toISOString",0),("toJSON",1),
            ("getYear",0),("setYear",1),("toGMTString",0)],
 "RegExp.prototype": [("exec",1),("test",1),("toString",0)],
 "Error.prototype": [("toString",0)],
 "JSON": [("parse",2),("stringify",3)],
}
CONSTRUCTORS = [("Object",1),("Function",1),("Array",1),("String",1),("Boolean",1),("Number",1),("Date",7),("RegExp",2),("Error",1),
                ("EvalError",1),("RangeError",1),("ReferenceError",1),("SyntaxError",1),("TypeError",1),("URIError",1)]
CLASS = {"Object.prototype":"Object","Function.prototype":"Function","Array.prototype":"Array","String.prototype":"String",
         "Boolean.prototype":"Boolean","Number.prototype":"Number","Date.prototype":"Date","RegExp.prototype":"RegExp","Error.prototype":"Error",
         "Math":"Math","JSON":"JSON"}
NATIVE = ["EvalError","RangeError","ReferenceError","SyntaxError","TypeError","URIError"]
out = []
w = out.append
w("//go:build verif\n")
w("package otto\n")
w("// ES5 section 15: the shape of the standard library (C14).  One clause per (owner, property):")
w("//   fn    a built-in function: attributes writable, non-enumerable, configurable (15, last")
w("//         paragraphs), the given length with attributes {false,false,false}, [[Class]] Function,")
w("//         prototype Function.prototype, bound to the Go function builtin<Owner><Name>, name = key")
w("//   const a value property with attributes {false,false,false}")
w("//   ref   a link to another well-known object (constructor <-> prototype)")
w("//   obj   [[Class]] and [[Prototype]] of the owner itself")
w("// gowp evaluates the composite literals of (*runtime).newContext (inline.go) on every run and")
w("// turns each clause into ground obligations (engine/table14.go).\n")
def b(s): w("//@ builtin[C14] " + s)
# owners
b("Object.prototype - obj class=Object proto=nil")
for o, c in CLASS.items():
    if o == "Object.prototype": continue
    proto = "Object.prototype"
    b("%s - obj class=%s proto=%s" % (o, c, proto))
for n in NATIVE:
    b("%s.prototype - obj class=Error proto=Error.prototype" % n)
for c, n in CONSTRUCTORS:
    b("%s - obj class=Function proto=Function.prototype" % c)
# global value properties 15.1.1
for k in ("NaN", "Infinity", "undefined"):
    b("global %s const" % k)
# global functions and constructors as properties of the global object
for c, n in CONSTRUCTORS:
    b("global %s fn len=%d ref=%s" % (c, n, c))
b("global Math ref ref=Math")
b("global JSON ref ref=JSON")
for o, lst in FN.items():
    for k, n in lst:
        b("%s %s fn len=%d" % (o, k, n))
# constructor.prototype (attributes all false) and prototype.constructor
for c, n in CONSTRUCTORS:
    b("%s prototype ref ref=%s.prototype mode=0" % (c, c))
    b("%s.prototype constructor ref ref=%s mode=0o101" % (c, c))
    b("%s length const kind=number value=%d" % (c, n))
# Math value properties 15.8.1, Number value properties 15.7.3
for k in ("E","LN10","LN2","LOG2E","LOG10E","PI","SQRT1_2","SQRT2"):
    b("Math %s const kind=number" % k)
for k in ("MAX_VALUE","MIN_VALUE","NaN","NEGATIVE_INFINITY","POSITIVE_INFINITY"):
    b("Number %s const kind=number" % k)
# Error.prototype.name / message (15.11.4.2-3): writable, non-enumerable, configurable
b("Error.prototype name const kind=string value=Error mode=0o101")
b("Error.prototype message const kind=string mode=0o101")
for n in NATIVE:
    b("%s.prototype name const kind=string value=%s mode=0o101" % (n, n))
open("/repo/contracts_verif_c14.go", "w").write("\n".join(out) + "\n")
print(len([l for l in out if l.startswith("//@")]), "clauses")
