#!/bin/sh
# usage: trymut.sh <file> <python-replace-old> <python-replace-new> <prop>   (scratch copy; /repo untouched)
file="$1"; old="$2"; new="$3"; prop="$4"
tmp=$(mktemp -d /tmp/gowp-mut-XXXXXX)
trap 'rm -rf "$tmp"' EXIT
rsync -a --exclude .git /repo/ "$tmp/repo/"
python3 - "$tmp/repo/$file" "$old" "$new" <<'PY'
import sys
p,old,new=sys.argv[1:4]
s=open(p).read()
assert s.count(old)>=1, "pattern not found"
open(p,'w').write(s.replace(old,new,1))
PY
[ $? -eq 0 ] || exit 3
(cd "$tmp/repo" && GOFLAGS=-mod=mod GOPROXY=off GOSUMDB=off GOTOOLCHAIN=local go build ./... ) || { echo "BUILD-FAILED"; exit 3; }
mkdir -p "$tmp/ev"
GOWP_REPO="$tmp/repo" GOWP_EVIDENCE_DIR="$tmp/ev" /verif/bin/gowp check -p "$prop" -tier quick 2>&1 | grep "^VIOLATION\|quick:" | cut -c1-260
