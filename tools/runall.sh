#!/bin/sh
# usage: runall.sh [-w] ids...   runs quick checks sequentially; -w writes baselines when clean
cd /verif
w=""
if [ "$1" = "-w" ]; then w=1; shift; fi
for p in "$@"; do
  out=$(bin/gowp check -p $p -tier quick 2>&1); st=$?
  echo "$out" | grep "^VIOLATION\|^VACUOUS\|quick:\|UNDECIDED" | cut -c1-260
  echo "$p exit=$st"
  if [ -n "$w" ] && [ $st -eq 0 ]; then bin/gowp check -p $p -tier quick -write-baseline >/dev/null 2>&1; echo "$p baseline written"; fi
done
