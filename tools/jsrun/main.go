// jsrun evaluates each argument as a JavaScript program on a fresh otto runtime and
// prints the result (developer probe; not used by the registered checks).
package main

import (
	"fmt"
	"os"

	"github.com/robertkrimen/otto"
)

func main() {
	for _, src := range os.Args[1:] {
		func() {
			defer func() {
				if r := recover(); r != nil {
					fmt.Printf("%-50s => GOPANIC %T: %v\n", src, r, r)
				}
			}()
			vm := otto.New()
			v, err := vm.Run(src)
			if err != nil {
				fmt.Printf("%-50s => ERROR %v\n", src, err)
				return
			}
			s, _ := v.ToString()
			fmt.Printf("%-50s => %s\n", src, s)
		}()
	}
}
