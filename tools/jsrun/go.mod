module jsrun

go 1.22

require github.com/robertkrimen/otto v0.0.0

replace github.com/robertkrimen/otto => /repo
require (
	github.com/stretchr/testify v1.8.1
	golang.org/x/text v0.4.0
	gopkg.in/readline.v1 v1.0.0-20160726135117-62c6fe619375
	gopkg.in/sourcemap.v1 v1.0.5
	gopkg.in/yaml.v3 v3.0.1
)

require (
	github.com/chzyer/test v1.0.0 // indirect
	github.com/davecgh/go-spew v1.1.1 // indirect
	github.com/pmezard/go-difflib v1.0.0 // indirect
)
