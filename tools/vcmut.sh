#!/bin/sh
# usage: vcmut.sh <file> <old> <new> funcKey...   (scratch copy; /repo untouched) - runs gowp vc
# on the named functions of the mutated copy; a quick non-vacuity probe for new contracts.
file="$1"; old="$2"; new="$3"; shift 3
tmp=$(mktemp -d /tmp/gowp-mut-XXXXXX)
trap 'rm -rf "$tmp"' EXIT
rsync -a --exclude .git /repo/ "$tmp/repo/"
python3 - "$tmp/repo/$file" "$old" "$new" <<'PY'
import sys
p,old,new=sys.argv[1:4]
s=open(p).read()
assert s.count(old)>=1, "pattern not found"
open(p,'w').write(s.replace(old,new,1))
PY
[ $? -eq 0 ] || exit 3
(cd "$tmp/repo" && GOFLAGS=-mod=mod GOPROXY=off GOSUMDB=off GOTOOLCHAIN=local go build ./... ) || { echo "BUILD-FAILED"; exit 3; }
cd "$tmp/repo" && GOWP_REPO="$tmp/repo" ${GOWP:-/verif/bin/gowp} vc -t 20 "$@" 2>&1 | grep -v "^      " | cut -c1-220
