#!/bin/sh
# usage: runall1.sh ids...   one sequential quick run per check that also rewrites the baseline
# (the obligations that discharged); if the run is not clean the old baseline is restored.
cd /verif
for p in "$@"; do
  out=$(bin/gowp check -p $p -tier quick -write-baseline 2>&1); st=$?
  echo "$out" | grep "^VIOLATION\|^VACUOUS\|quick:\|UNDECIDED\|ENGINE\|no longer generated" | cut -c1-260
  echo "$p exit=$st"
  if [ $st -ne 0 ]; then git checkout -- baseline/$p.json; echo "$p baseline restored"; fi
done
