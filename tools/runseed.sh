#!/bin/sh
# usage: runseed.sh <patch.diff> <property> [tier]
# Applies the patch to a scratch copy of /repo (never to /repo itself), runs the check of
# the property against the copy, prints its output and exit status, removes the copy.
patch="$1"; prop="$2"; tier="${3:-quick}"
tmp=$(mktemp -d /tmp/gowp-seed-XXXXXX)
trap 'rm -rf "$tmp"' EXIT
rsync -a --exclude .git /repo/ "$tmp/repo/"
if ! (cd "$tmp/repo" && patch -p1 -s --no-backup-if-mismatch < "$patch"); then
  echo "PATCH-FAILED $patch"; exit 3
fi
mkdir -p "$tmp/ev"
GOWP_REPO="$tmp/repo" GOWP_EVIDENCE_DIR="$tmp/ev" /verif/bin/gowp check -p "$prop" -tier "$tier"
st=$?
echo "exit=$st"
exit $st
