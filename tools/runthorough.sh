#!/bin/sh
# usage: runthorough.sh ids...   runs the thorough checks sequentially
cd /verif
for p in "$@"; do
  out=$(bin/gowp check -p $p -tier thorough 2>&1); st=$?
  echo "$out" | grep "^VIOLATION\|^VACUOUS\|thorough:" | cut -c1-260
  echo "$p exit=$st"
done
