#!/bin/sh
# usage: seedmatrix.sh [ids...]   runs each confirmed seed against the quick check of its property
# (and prints one line per seed: DETECTED / missed / patch-failed), never touching /repo.
cd /verif
ids="$@"
[ -z "$ids" ] && ids=$(ls seeded)
for id in $ids; do
  prop=$(echo $id | cut -d- -f1)
  if ! grep -q "\"property_id\": \"$prop\"" MANIFEST.json; then echo "$id unclaimed"; continue; fi
  out=$(tools/runseed.sh /verif/seeded/$id/patch.diff $prop 2>&1)
  if echo "$out" | grep -q "PATCH-FAILED"; then echo "$id patch-failed"; continue; fi
  v=$(echo "$out" | grep -c "^VIOLATION")
  if [ "$v" -gt 0 ]; then
    echo "$id DETECTED $(echo "$out" | grep "^VIOLATION" | head -1 | sed 's/.*obligation=//' | cut -c1-120)"
  else
    echo "$id missed"
  fi
done
