#!/bin/sh
# usage: seedmatrix.sh [-j N] [ids...]   runs each confirmed seed against the quick check of its
# property in a scratch copy (never touching /repo) and prints one line per seed:
# DETECTED <obligation> / missed / patch-failed.  This is also the must-fail self-test of the
# machinery: run it after every engine or contract change.
cd /verif
jobs=1
if [ "$1" = "-j" ]; then jobs=$2; shift 2; fi
ids="$@"
[ -z "$ids" ] && ids=$(ls seeded)
one() {
  id=$1
  prop=$(echo $id | cut -d- -f1)
  if ! grep -q "\"property_id\": \"$prop\"" MANIFEST.json; then echo "$id unclaimed"; return; fi
  out=$(tools/runseed.sh /verif/seeded/$id/patch.diff $prop 2>&1)
  if echo "$out" | grep -q "PATCH-FAILED"; then echo "$id patch-failed"; return; fi
  v=$(echo "$out" | grep -c "^VIOLATION")
  if [ "$v" -gt 0 ]; then
    echo "$id DETECTED $(echo "$out" | grep "^VIOLATION" | head -1 | sed 's/.*obligation=//' | cut -c1-120)"
  else
    echo "$id missed"
  fi
}
if [ "$jobs" -gt 1 ]; then
  for id in $ids; do echo $id; done | xargs -P $jobs -I{} sh -c '/verif/tools/seedmatrix.sh {}'
else
  for id in $ids; do one $id; done
fi
