#!/usr/bin/env python3
# usage: coverage.py [Cxx...]   lists, per property, functions declared in the property's anchor
# files that have no "//@ func" contract block in /repo/**/contracts_verif*.go.
import json,re,sys,glob,os
props=[json.loads(l) for l in open('/verif/properties.jsonl')]
under=set()
for f in glob.glob('/repo/**/contracts_verif*.go',recursive=True):
    for m in re.finditer(r'^//@ func (.+)$',open(f).read(),re.M):
        n=m.group(1).strip()
        under.add(re.sub(r'^\(\*?([A-Za-z0-9_]+)\)\.',r'\1.',n))
want=sys.argv[1:]
for p in props:
    if want and p['id'] not in want: continue
    miss=[];tot=0
    for f in p['anchors']['files']:
        path='/repo/'+f
        if not os.path.isfile(path): continue
        for m in re.finditer(r'^func (?:\((?:\w+ )?\*?(\w+)\) )?(\w+)\(',open(path).read(),re.M):
            n=(m.group(1)+'.' if m.group(1) else '')+m.group(2)
            tot+=1
            if n not in under: miss.append(f+':'+n)
    print(p['id'],f'{tot-len(miss)}/{tot}')
    if want:
        for x in miss: print('   ',x)
